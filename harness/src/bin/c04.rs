//! C04 — register caching is observationally transparent.
//!
//! An ABSTRACT register graph (registers of every kind incl. selector-addressed ones and
//! StructReg entries, all three `Cachable` modes, `pInvalidator` declarations, Integer /
//! Command features, one Port) is rendered to GenApi XML and built TWICE with the real
//! `cameleon_genapi` builder: `GenApiBuilder::default()` (DefaultCacheStore) and
//! `.no_cache()` (CacheSink).  The same scripted, recording, possibly rejecting device and
//! the same random history run against both.
//!
//! PROPERTY ORACLE (implementation vs implementation): every result / error class and the
//! final device image are identical; the cached access log is the uncached log minus some
//! successful reads; a NoCache register always reaches the device; a register's own write is
//! visible to the next read.  Evaluated on (1) `Declared` graphs (mirror of the Lean
//! predicate, tied through `c04 decl`), (2) the via-feature stream: needed declarations placed
//! on the FEATURE nodes above the writer, writes only through features, classified per
//! history by `declared_for_history`, (3) the controller stream: declared graphs with
//! pIsImplemented / pIsAvailable / pIsLocked controllers and is_readable / is_writable
//! queries (tied to the model like the other streams).
//! TIE (model vs implementation): both runs are sent to `CamVerif.Model.Cache` (results,
//! final image, full access log) for every case of these streams, declared or not; the
//! per-history classification `declared_for_history` is tied to the Lean `declaredForB`.
//! The scripted device rejects statically (ranges), by write ordinal (atomic) and
//! NON-ATOMICALLY (`rej_p`: error after part of the data, all of it, or garbage was stored).

use camharness::{hex, json, parse_args, profile, unhex, Report, Rng, Value};
use cameleon_genapi::builder::GenApiBuilder;
use cameleon_genapi::prelude::*;
use cameleon_genapi::store::{CacheStore, DefaultNodeStore, DefaultValueStore, NodeData};
use cameleon_genapi::{Device, GenApiError, GenApiResult, NodeId, NodeStore, ValueCtxt};

// ---------------------------------------------------------------- abstract graph

#[derive(Clone, Copy, PartialEq, Eq, Debug)]
enum Mode {
    WT,
    WA,
    NC,
}
#[derive(Clone, Copy, PartialEq, Eq, Debug)]
enum Acc {
    RO,
    WO,
    RW,
}
#[derive(Clone, Debug, PartialEq)]
enum Kind {
    Int { be: bool, signed: bool },
    Masked { be: bool, signed: bool, lsb: u64, msb: u64 },
    Float { be: bool },
    Str,
    Raw,
}
#[derive(Clone, Debug)]
struct RegSpec {
    kind: Kind,
    base: i64,
    sel: Option<(usize, i64)>,
    len: u64,
    mode: Mode,
    acc: Acc,
    invs: Vec<usize>,
    port: usize,
    /// StructReg group this MaskedIntReg is an entry of
    group: Option<usize>,
    /// how the entry is DECLARED in the XML (struct level vs entry level); `mode` / `acc` / `invs`
    /// above are always the EFFECTIVE values by the XML semantics (GenICam 2.8.7: the entry
    /// overrides the StructReg where it declares the element; defaults WriteThrough / RO; an
    /// empty entry pInvalidator list inherits the StructReg's). `None`: the entry declares all.
    decl: Option<EntryDecl>,
}

#[derive(Clone, Debug, Default, PartialEq)]
struct EntryDecl {
    s_mode: Option<Mode>,
    s_acc: Option<Acc>,
    s_invs: Vec<usize>,
    e_mode: Option<Mode>,
    e_acc: Option<Acc>,
    e_invs: Vec<usize>,
}

impl EntryDecl {
    fn eff_mode(&self) -> Mode {
        self.e_mode.or(self.s_mode).unwrap_or(Mode::WT)
    }
    fn eff_acc(&self) -> Acc {
        self.e_acc.or(self.s_acc).unwrap_or(Acc::RO)
    }
    fn eff_invs(&self) -> Vec<usize> {
        if self.e_invs.is_empty() {
            self.s_invs.clone()
        } else {
            self.e_invs.clone()
        }
    }
    fn to_text(&self) -> String {
        let m = |x: &Option<Mode>| x.map_or("-".to_string(), |v| format!("{v:?}"));
        let a = |x: &Option<Acc>| x.map_or("-".to_string(), |v| format!("{v:?}"));
        format!("{}|{}|{}|{}|{}|{}", m(&self.s_mode), a(&self.s_acc), list_str(&self.s_invs), m(&self.e_mode), a(&self.e_acc), list_str(&self.e_invs))
    }
    fn from_text(t: &str) -> EntryDecl {
        let f: Vec<&str> = t.split('|').collect();
        let m = |x: &str| match x {
            "WT" => Some(Mode::WT),
            "WA" => Some(Mode::WA),
            "NC" => Some(Mode::NC),
            _ => None,
        };
        let a = |x: &str| match x {
            "RO" => Some(Acc::RO),
            "WO" => Some(Acc::WO),
            "RW" => Some(Acc::RW),
            _ => None,
        };
        EntryDecl { s_mode: m(f[0]), s_acc: a(f[1]), s_invs: p_list(f[2], ',', |x| x.parse().unwrap()), e_mode: m(f[3]), e_acc: a(f[4]), e_invs: p_list(f[5], ',', |x| x.parse().unwrap()) }
    }
}
#[derive(Clone, Debug)]
enum NodeSpec {
    Port,
    Reg(RegSpec),
    /// pValue, pValueCopy*
    Integer(usize, Vec<usize>),
    Command(usize, i64),
    /// pValue, OnValue, OffValue
    Boolean(usize, i64, i64),
    /// pValue, entry values
    Enumeration(usize, Vec<i64>),
}

#[derive(Clone, Debug)]
struct DevSpec {
    mem: Vec<u8>,
    no_access: Vec<(i64, u64)>,
    no_write: Vec<(i64, u64)>,
    rej_w: Vec<u64>,
    /// non-atomic rejections: (write attempt ordinal, leading bytes applied, junk appended)
    rej_p: Vec<(u64, usize, Vec<u8>)>,
}

#[derive(Clone, Debug, PartialEq)]
enum ValS {
    Int(i64),
    Flt(u64, u64),
    Str(Vec<u8>),
    Bool(bool),
}

#[derive(Clone, Debug, PartialEq)]
enum Op {
    Value(usize),
    SetValue(usize, ValS),
    Read(usize, usize),
    Write(usize, Vec<u8>),
    Execute(usize),
    IsDone(usize),
    PortRead(usize, i64, usize),
    PortWrite(usize, i64, Vec<u8>),
    ClearCache,
    Address(usize),
    /// access queries (controller stream only; not part of the model)
    IsReadable(usize),
    IsWritable(usize),
}

#[derive(Clone, Debug)]
struct Case {
    nodes: Vec<NodeSpec>,
    /// (node, [pIsImplemented, pIsAvailable, pIsLocked]) — controller stream only
    ctls: Vec<(usize, [Option<usize>; 3])>,
    dev: DevSpec,
    ops: Vec<Op>,
}

// ---------------------------------------------------------------- text forms (line protocol)

fn eb(be: bool) -> char {
    if be {
        'b'
    } else {
        'l'
    }
}
fn sg(signed: bool) -> char {
    if signed {
        's'
    } else {
        'u'
    }
}
fn list_str<T: ToString>(xs: &[T]) -> String {
    if xs.is_empty() {
        "-".into()
    } else {
        xs.iter().map(|x| x.to_string()).collect::<Vec<_>>().join(",")
    }
}

fn kind_str(k: &Kind) -> String {
    match k {
        Kind::Int { be, signed } => format!("I{}{}", eb(*be), sg(*signed)),
        Kind::Masked { be, signed, lsb, msb } => format!("M{}{}.{}.{}", eb(*be), sg(*signed), lsb, msb),
        Kind::Float { be } => format!("F{}", eb(*be)),
        Kind::Str => "S".into(),
        Kind::Raw => "B".into(),
    }
}

fn node_str(n: &NodeSpec) -> String {
    match n {
        NodeSpec::Port => "P".into(),
        NodeSpec::Reg(r) => format!(
            "R/{}/{}/{}/{}/{:?}/{:?}/{}/{}",
            kind_str(&r.kind),
            r.base,
            r.sel.map_or("-".to_string(), |(s, o)| format!("{s}*{o}")),
            r.len,
            r.mode,
            r.acc,
            list_str(&r.invs),
            r.port
        ),
        NodeSpec::Integer(pv, cs) => format!("G/{pv}/{}", list_str(cs)),
        NodeSpec::Command(pv, cv) => format!("C/{pv}/{cv}"),
        NodeSpec::Boolean(pv, on, off) => format!("O/{pv}/{on}/{off}"),
        NodeSpec::Enumeration(pv, vs) => format!("E/{pv}/{}", list_str(vs)),
    }
}

fn graph_str(nodes: &[NodeSpec]) -> String {
    nodes.iter().map(node_str).collect::<Vec<_>>().join(";")
}

fn ranges_str(rs: &[(i64, u64)]) -> String {
    if rs.is_empty() {
        "-".into()
    } else {
        rs.iter().map(|(a, l)| format!("{a}+{l}")).collect::<Vec<_>>().join(",")
    }
}

fn dev_str(d: &DevSpec) -> String {
    let rp = if d.rej_p.is_empty() { "-".to_string() } else { d.rej_p.iter().map(|(k, m, j)| format!("{k}:{m}:{}", hex(j))).collect::<Vec<_>>().join(",") };
    format!("{}/{}/{}/{}/{}", hex(&d.mem), ranges_str(&d.no_access), ranges_str(&d.no_write), list_str(&d.rej_w), rp)
}

fn val_str(v: &ValS) -> String {
    match v {
        ValS::Int(i) => format!("i{i}"),
        ValS::Flt(w, b) => format!("f{w}.{b}"),
        ValS::Str(s) => format!("x{}", hex(s)),
        ValS::Bool(b) => format!("b{}", *b as u8),
    }
}

fn op_str(op: &Op) -> String {
    match op {
        Op::Value(n) => format!("v/{n}"),
        Op::SetValue(n, v) => format!("s/{n}/{}", val_str(v)),
        Op::Read(n, l) => format!("r/{n}/{l}"),
        Op::Write(n, d) => format!("w/{n}/{}", hex(d)),
        Op::Execute(n) => format!("e/{n}"),
        Op::IsDone(n) => format!("d/{n}"),
        Op::PortRead(n, a, l) => format!("pr/{n}/{a}/{l}"),
        Op::PortWrite(n, a, d) => format!("pw/{n}/{a}/{}", hex(d)),
        Op::ClearCache => "cc".into(),
        Op::Address(n) => format!("a/{n}"),
        Op::IsReadable(n) => format!("ir/{n}"),
        Op::IsWritable(n) => format!("iw/{n}"),
    }
}

fn ops_str(ops: &[Op]) -> String {
    if ops.is_empty() {
        "-".into()
    } else {
        ops.iter().map(op_str).collect::<Vec<_>>().join(";")
    }
}

// parsers of the same text forms (replay / corpus files)

fn p_list<T>(s: &str, sep: char, f: impl Fn(&str) -> T) -> Vec<T> {
    if s == "-" {
        vec![]
    } else {
        s.split(sep).map(f).collect()
    }
}

fn p_kind(s: &str) -> Kind {
    let c: Vec<char> = s.chars().collect();
    match c[0] {
        'I' => Kind::Int { be: c[1] == 'b', signed: c[2] == 's' },
        'F' => Kind::Float { be: c[1] == 'b' },
        'S' => Kind::Str,
        'B' => Kind::Raw,
        'M' => {
            let parts: Vec<&str> = s.split('.').collect();
            Kind::Masked { be: c[1] == 'b', signed: c[2] == 's', lsb: parts[1].parse().unwrap(), msb: parts[2].parse().unwrap() }
        }
        _ => panic!("bad kind {s}"),
    }
}

fn p_node(s: &str, group: Option<usize>) -> NodeSpec {
    let f: Vec<&str> = s.split('/').collect();
    match f[0] {
        "P" => NodeSpec::Port,
        "G" => NodeSpec::Integer(f[1].parse().unwrap(), p_list(f.get(2).copied().unwrap_or("-"), ',', |x| x.parse().unwrap())),
        "C" => NodeSpec::Command(f[1].parse().unwrap(), f[2].parse().unwrap()),
        "O" => NodeSpec::Boolean(f[1].parse().unwrap(), f[2].parse().unwrap(), f[3].parse().unwrap()),
        "E" => NodeSpec::Enumeration(f[1].parse().unwrap(), p_list(f[2], ',', |x| x.parse().unwrap())),
        "R" => NodeSpec::Reg(RegSpec {
            kind: p_kind(f[1]),
            base: f[2].parse().unwrap(),
            sel: if f[3] == "-" {
                None
            } else {
                let (a, b) = f[3].split_once('*').unwrap();
                Some((a.parse().unwrap(), b.parse().unwrap()))
            },
            len: f[4].parse().unwrap(),
            mode: match f[5] {
                "WT" => Mode::WT,
                "WA" => Mode::WA,
                _ => Mode::NC,
            },
            acc: match f[6] {
                "RO" => Acc::RO,
                "WO" => Acc::WO,
                _ => Acc::RW,
            },
            invs: p_list(f[7], ',', |x| x.parse().unwrap()),
            port: f[8].parse().unwrap(),
            group,
            decl: None,
        }),
        _ => panic!("bad node {s}"),
    }
}

fn p_ranges(s: &str) -> Vec<(i64, u64)> {
    p_list(s, ',', |x| {
        let i = x.rfind('+').unwrap();
        (x[..i].parse().unwrap(), x[i + 1..].parse().unwrap())
    })
}

fn p_dev(s: &str) -> DevSpec {
    let f: Vec<&str> = s.split('/').collect();
    let rej_p = p_list(f.get(4).copied().unwrap_or("-"), ',', |x| {
        let q: Vec<&str> = x.split(':').collect();
        (q[0].parse().unwrap(), q[1].parse().unwrap(), unhex(q[2]))
    });
    DevSpec { mem: unhex(f[0]), no_access: p_ranges(f[1]), no_write: p_ranges(f[2]), rej_w: p_list(f[3], ',', |x| x.parse().unwrap()), rej_p }
}

fn p_val(s: &str) -> ValS {
    match &s[..1] {
        "i" => ValS::Int(s[1..].parse().unwrap()),
        "b" => ValS::Bool(&s[1..] == "1"),
        "f" => {
            let (w, b) = s[1..].split_once('.').unwrap();
            ValS::Flt(w.parse().unwrap(), b.parse().unwrap())
        }
        _ => ValS::Str(unhex(&s[1..])),
    }
}

fn p_op(s: &str) -> Op {
    let f: Vec<&str> = s.split('/').collect();
    match f[0] {
        "v" => Op::Value(f[1].parse().unwrap()),
        "s" => Op::SetValue(f[1].parse().unwrap(), p_val(f[2])),
        "r" => Op::Read(f[1].parse().unwrap(), f[2].parse().unwrap()),
        "w" => Op::Write(f[1].parse().unwrap(), unhex(f[2])),
        "e" => Op::Execute(f[1].parse().unwrap()),
        "d" => Op::IsDone(f[1].parse().unwrap()),
        "pr" => Op::PortRead(f[1].parse().unwrap(), f[2].parse().unwrap(), f[3].parse().unwrap()),
        "pw" => Op::PortWrite(f[1].parse().unwrap(), f[2].parse().unwrap(), unhex(f[3])),
        "cc" => Op::ClearCache,
        "a" => Op::Address(f[1].parse().unwrap()),
        "ir" => Op::IsReadable(f[1].parse().unwrap()),
        "iw" => Op::IsWritable(f[1].parse().unwrap()),
        _ => panic!("bad op {s}"),
    }
}

fn case_to_json(c: &Case) -> Value {
    let groups: Vec<Value> = c
        .nodes
        .iter()
        .map(|n| match n {
            NodeSpec::Reg(r) => r.group.map_or(Value::Null, |g| json!(g)),
            _ => Value::Null,
        })
        .collect();
    let ctls: Vec<Value> = c.ctls.iter().map(|(n, k)| json!([n, k[0], k[1], k[2]])).collect();
    let sdecl: Vec<Value> = c
        .nodes
        .iter()
        .map(|n| match n {
            NodeSpec::Reg(RegSpec { decl: Some(d), .. }) => json!(d.to_text()),
            _ => Value::Null,
        })
        .collect();
    json!({"graph": graph_str(&c.nodes), "groups": groups, "sdecl": sdecl, "ctls": ctls, "dev": dev_str(&c.dev), "ops": ops_str(&c.ops)})
}

fn case_from_json(v: &Value) -> Case {
    let groups: Vec<Option<usize>> = v["groups"].as_array().map_or(vec![], |a| a.iter().map(|g| g.as_u64().map(|x| x as usize)).collect());
    let mut nodes: Vec<NodeSpec> = v["graph"].as_str().unwrap().split(';').enumerate().map(|(i, s)| p_node(s, groups.get(i).copied().flatten())).collect();
    if let Some(sd) = v["sdecl"].as_array() {
        for (i, d) in sd.iter().enumerate() {
            if let (Some(t), Some(NodeSpec::Reg(r))) = (d.as_str(), nodes.get_mut(i)) {
                r.decl = Some(EntryDecl::from_text(t));
            }
        }
    }
    let ctls = v["ctls"].as_array().map_or(vec![], |a| {
        a.iter()
            .map(|e| {
                let g = |i: usize| e[i].as_u64().map(|x| x as usize);
                (g(0).unwrap(), [g(1), g(2), g(3)])
            })
            .collect()
    });
    Case { nodes, ctls, dev: p_dev(v["dev"].as_str().unwrap()), ops: p_list(v["ops"].as_str().unwrap(), ';', p_op) }
}

// ---------------------------------------------------------------- XML rendering

const XML_HEAD: &str = r#"<RegisterDescription ModelName="VerifModel" VendorName="Verif" StandardNameSpace="None" SchemaMajorVersion="1" SchemaMinorVersion="1" SchemaSubMinorVersion="0" MajorVersion="1" MinorVersion="0" SubMinorVersion="0" ProductGuid="01234567-0123-0123-0123-0123456789ab" VersionGuid="76543210-3210-3210-3210-ba9876543210" xmlns="http://www.genicam.org/GenApi/Version_1_1">
"#;

fn mode_xml(m: Mode) -> &'static str {
    match m {
        Mode::WT => "WriteThrough",
        Mode::WA => "WriteAround",
        Mode::NC => "NoCache",
    }
}

fn addr_xml(r: &RegSpec) -> String {
    let mut s = format!("<Address>{}</Address>", r.base);
    if let Some((sel, off)) = r.sel {
        s += &format!("<pIndex Offset=\"{off}\">N{sel}</pIndex>");
    }
    s
}

fn endian_xml(be: bool) -> &'static str {
    if be {
        "<Endianess>BigEndian</Endianess>"
    } else {
        "<Endianess>LittleEndian</Endianess>"
    }
}
fn sign_xml(signed: bool) -> &'static str {
    if signed {
        "<Sign>Signed</Sign>"
    } else {
        "<Sign>Unsigned</Sign>"
    }
}

fn xml_of(nodes: &[NodeSpec], ctls: &[(usize, [Option<usize>; 3])]) -> String {
    let ctl = |i: usize| -> String {
        let mut t = String::new();
        if let Some((_, k)) = ctls.iter().find(|c| c.0 == i) {
            for (tag, v) in ["pIsImplemented", "pIsAvailable", "pIsLocked"].iter().zip(k.iter()) {
                if let Some(x) = v {
                    t += &format!("<{tag}>N{x}</{tag}>");
                }
            }
        }
        t
    };
    let mut s = String::from(XML_HEAD);
    let mut done_groups: Vec<usize> = vec![];
    for (i, n) in nodes.iter().enumerate() {
        match n {
            NodeSpec::Port => s += &format!("<Port Name=\"N{i}\"></Port>\n"),
            NodeSpec::Boolean(pv, on, off) => s += &format!("<Boolean Name=\"N{i}\">{}<pValue>N{pv}</pValue><OnValue>{on}</OnValue><OffValue>{off}</OffValue></Boolean>\n", ctl(i)),
            NodeSpec::Enumeration(pv, vs) => {
                s += &format!("<Enumeration Name=\"N{i}\">{}", ctl(i));
                for (k, v) in vs.iter().enumerate() {
                    s += &format!("<EnumEntry Name=\"E{k}\"><Value>{v}</Value></EnumEntry>");
                }
                s += &format!("<pValue>N{pv}</pValue></Enumeration>\n");
            }
            NodeSpec::Integer(pv, cs) => {
                s += &format!("<Integer Name=\"N{i}\">{}<pValue>N{pv}</pValue>", ctl(i));
                for c in cs {
                    s += &format!("<pValueCopy>N{c}</pValueCopy>");
                }
                s += "</Integer>\n";
            }
            NodeSpec::Command(pv, cv) => s += &format!("<Command Name=\"N{i}\">{}<pValue>N{pv}</pValue><CommandValue>{cv}</CommandValue></Command>\n", ctl(i)),
            NodeSpec::Reg(r) => {
                if let Some(gid) = r.group {
                    if done_groups.contains(&gid) {
                        continue;
                    }
                    done_groups.push(gid);
                    // one <StructReg> for all entries of the group; common part from the first entry
                    let be = matches!(r.kind, Kind::Masked { be: true, .. });
                    let sd = r.decl.clone().unwrap_or_default();
                    s += &format!("<StructReg Comment=\"G{gid}\">{}<Length>{}</Length>", addr_xml(r), r.len);
                    if let Some(a) = sd.s_acc {
                        s += &format!("<AccessMode>{a:?}</AccessMode>");
                    }
                    s += &format!("<pPort>N{}</pPort>", r.port);
                    if let Some(m) = sd.s_mode {
                        s += &format!("<Cachable>{}</Cachable>", mode_xml(m));
                    }
                    for inv in &sd.s_invs {
                        s += &format!("<pInvalidator>N{inv}</pInvalidator>");
                    }
                    s += endian_xml(be);
                    for (j, m) in nodes.iter().enumerate() {
                        if let NodeSpec::Reg(e) = m {
                            if e.group == Some(gid) {
                                if let Kind::Masked { signed, lsb, msb, .. } = e.kind {
                                    s += &format!("<StructEntry Name=\"N{j}\">");
                                    // legacy cases (no `decl`): the entry declares everything
                                    let ed = e.decl.clone().unwrap_or(EntryDecl { e_mode: Some(e.mode), e_acc: Some(e.acc), e_invs: e.invs.clone(), ..Default::default() });
                                    for inv in &ed.e_invs {
                                        s += &format!("<pInvalidator>N{inv}</pInvalidator>");
                                    }
                                    if let Some(a) = ed.e_acc {
                                        s += &format!("<AccessMode>{a:?}</AccessMode>");
                                    }
                                    if let Some(m) = ed.e_mode {
                                        s += &format!("<Cachable>{}</Cachable>", mode_xml(m));
                                    }
                                    s += &format!("<LSB>{lsb}</LSB><MSB>{msb}</MSB>{}</StructEntry>", sign_xml(signed));
                                }
                            }
                        }
                    }
                    s += "</StructReg>\n";
                    continue;
                }
                let tag = match r.kind {
                    Kind::Int { .. } => "IntReg",
                    Kind::Masked { .. } => "MaskedIntReg",
                    Kind::Float { .. } => "FloatReg",
                    Kind::Str => "StringReg",
                    Kind::Raw => "Register",
                };
                s += &format!("<{tag} Name=\"N{i}\">{}{}<Length>{}</Length><AccessMode>{:?}</AccessMode><pPort>N{}</pPort><Cachable>{}</Cachable>", ctl(i), addr_xml(r), r.len, r.acc, r.port, mode_xml(r.mode));
                for inv in &r.invs {
                    s += &format!("<pInvalidator>N{inv}</pInvalidator>");
                }
                match &r.kind {
                    Kind::Int { be, signed } => {
                        s += sign_xml(*signed);
                        s += endian_xml(*be);
                    }
                    Kind::Masked { be, signed, lsb, msb } => {
                        s += &format!("<LSB>{lsb}</LSB><MSB>{msb}</MSB>");
                        s += sign_xml(*signed);
                        s += endian_xml(*be);
                    }
                    Kind::Float { be } => s += endian_xml(*be),
                    _ => {}
                }
                s += &format!("</{tag}>\n");
            }
        }
    }
    s += "</RegisterDescription>\n";
    s
}

// ---------------------------------------------------------------- scripted recording device

#[derive(Clone, Debug, PartialEq)]
struct Access {
    write: bool,
    addr: i64,
    len: usize,
    data: Vec<u8>,
    ok: bool,
}

struct Dev {
    mem: Vec<u8>,
    no_access: Vec<(i64, u64)>,
    no_write: Vec<(i64, u64)>,
    rej_w: Vec<u64>,
    rej_p: Vec<(u64, usize, Vec<u8>)>,
    wcount: u64,
    log: Vec<Access>,
}

fn overlaps(a: i128, l: i128, a2: i128, l2: i128) -> bool {
    a < a2 + l2 && a2 < a + l
}
fn touches(rs: &[(i64, u64)], a: i64, l: usize) -> bool {
    rs.iter().any(|r| overlaps(r.0 as i128, r.1 as i128, a as i128, l as i128))
}

impl Dev {
    fn new(d: &DevSpec) -> Self {
        Dev { mem: d.mem.clone(), no_access: d.no_access.clone(), no_write: d.no_write.clone(), rej_w: d.rej_w.clone(), rej_p: d.rej_p.clone(), wcount: 0, log: vec![] }
    }
    fn in_image(&self, a: i64, l: usize) -> bool {
        a >= 0 && (a as i128 + l as i128) <= self.mem.len() as i128
    }
}

impl Device for Dev {
    fn read_mem(&mut self, address: i64, buf: &mut [u8]) -> Result<(), Box<dyn std::error::Error + Send + Sync>> {
        let l = buf.len();
        if self.in_image(address, l) && !touches(&self.no_access, address, l) {
            buf.copy_from_slice(&self.mem[address as usize..address as usize + l]);
            self.log.push(Access { write: false, addr: address, len: l, data: buf.to_vec(), ok: true });
            Ok(())
        } else {
            self.log.push(Access { write: false, addr: address, len: l, data: vec![], ok: false });
            Err("device rejected the read".into())
        }
    }
    fn write_mem(&mut self, address: i64, data: &[u8]) -> Result<(), Box<dyn std::error::Error + Send + Sync>> {
        let l = data.len();
        let k = self.wcount;
        self.wcount += 1;
        let allowed = self.in_image(address, l) && !touches(&self.no_access, address, l) && !touches(&self.no_write, address, l) && !self.rej_w.contains(&k);
        if let (true, Some((_, m, junk))) = (allowed, self.rej_p.iter().find(|p| p.0 == k).cloned()) {
            // non-atomic rejection: part of the data (or junk) reaches the device, then an error
            let mut left: Vec<u8> = data[..m.min(l)].to_vec();
            left.extend_from_slice(&junk);
            left.truncate(l);
            self.mem[address as usize..address as usize + left.len()].copy_from_slice(&left);
            self.log.push(Access { write: true, addr: address, len: l, data: left, ok: false });
            return Err("device failed in the middle of the write".into());
        }
        if allowed {
            self.mem[address as usize..address as usize + l].copy_from_slice(data);
            self.log.push(Access { write: true, addr: address, len: l, data: data.to_vec(), ok: true });
            Ok(())
        } else {
            self.log.push(Access { write: true, addr: address, len: l, data: vec![], ok: false });
            Err("device rejected the write".into())
        }
    }
}

fn log_str(log: &[Access]) -> String {
    if log.is_empty() {
        return "-".into();
    }
    log.iter()
        .map(|a| format!("{}:{}:{}:{}:{}", if a.write { "W" } else { "R" }, a.addr, a.len, hex(&a.data), a.ok as u8))
        .collect::<Vec<_>>()
        .join(",")
}

// ---------------------------------------------------------------- running the real code

thread_local! { static IN_CATCH: std::cell::Cell<bool> = std::cell::Cell::new(false); }

/// like `camharness::catch`, but panics of the harness itself (outside `catch`) stay visible
fn catch<T>(f: impl FnOnce() -> T) -> Result<T, ()> {
    static ONCE: std::sync::Once = std::sync::Once::new();
    ONCE.call_once(|| {
        let default = std::panic::take_hook();
        std::panic::set_hook(Box::new(move |info| {
            if !IN_CATCH.with(|c| c.get()) {
                default(info);
            }
        }));
    });
    IN_CATCH.with(|c| c.set(true));
    let r = std::panic::catch_unwind(std::panic::AssertUnwindSafe(f)).map_err(|_| ());
    IN_CATCH.with(|c| c.set(false));
    r
}

fn err_name(e: &GenApiError) -> &'static str {
    match e {
        GenApiError::Device(_) => "Device",
        GenApiError::NotWritable => "NotWritable",
        GenApiError::InvalidNode(_) => "InvalidNode",
        GenApiError::InvalidData(_) => "InvalidData",
        GenApiError::ChunkDataMissing => "ChunkDataMissing",
        GenApiError::InvalidBuffer(_) => "InvalidBuffer",
    }
}

#[derive(Clone, Debug, PartialEq)]
enum Out {
    Int(i64),
    Flt(u64, u64, bool),
    Str(String),
    Bytes(Vec<u8>),
    Bool(bool),
    Unit,
    Err(&'static str),
    Panic,
}

fn out_str(o: &Out) -> String {
    match o {
        Out::Int(i) => format!("i{i}"),
        Out::Flt(w, _, true) => format!("f{w}.nan"),
        Out::Flt(w, b, false) => format!("f{w}.{b}"),
        Out::Str(s) => {
            if s.is_ascii() {
                format!("x{}", hex(s.as_bytes()))
            } else {
                "xNONASCII".into()
            }
        }
        Out::Bytes(b) => format!("y{}", hex(b)),
        Out::Bool(b) => format!("b{}", *b as u8),
        Out::Unit => "u".into(),
        Out::Err(e) => format!("E{e}"),
        Out::Panic => "panic".into(),
    }
}

fn invalid_node() -> GenApiError {
    GenApiError::InvalidNode("harness: node does not implement the interface".into())
}

fn run_op<S: CacheStore>(nodes: &[NodeSpec], ids: &[NodeId], store: &DefaultNodeStore, cx: &mut ValueCtxt<DefaultValueStore, S>, dev: &mut Dev, op: &Op) -> Out {
    let r = catch(|| -> GenApiResult<Out> {
        Ok(match op {
            Op::Value(n) => {
                let nid = ids[*n];
                if let Some(i) = nid.as_iinteger_kind(store) {
                    Out::Int(i.value(dev, store, cx)?)
                } else if let Some(f) = nid.as_ifloat_kind(store) {
                    let v = f.value(dev, store, cx)?;
                    let len = match &nodes[*n] {
                        NodeSpec::Reg(r) => r.len,
                        _ => 8,
                    };
                    if len == 4 {
                        Out::Flt(4, (v as f32).to_bits() as u64, v.is_nan())
                    } else {
                        Out::Flt(len, v.to_bits(), v.is_nan())
                    }
                } else if let Some(s) = nid.as_istring_kind(store) {
                    Out::Str(s.value(dev, store, cx)?)
                } else if let Some(e) = nid.as_ienumeration_kind(store) {
                    Out::Int(e.current_value(dev, store, cx)?)
                } else if let Some(b) = nid.as_iboolean_kind(store) {
                    Out::Bool(b.value(dev, store, cx)?)
                } else {
                    return Err(invalid_node());
                }
            }
            Op::SetValue(n, v) => {
                let nid = ids[*n];
                match v {
                    ValS::Int(i) => {
                        if let Some(n) = nid.as_iinteger_kind(store) {
                            n.set_value(*i, dev, store, cx)?
                        } else {
                            nid.as_ienumeration_kind(store).ok_or_else(invalid_node)?.set_entry_by_value(*i, dev, store, cx)?
                        }
                    }
                    ValS::Bool(b) => nid.as_iboolean_kind(store).ok_or_else(invalid_node)?.set_value(*b, dev, store, cx)?,
                    ValS::Flt(w, b) => {
                        let f = if *w == 4 { f32::from_bits(*b as u32) as f64 } else { f64::from_bits(*b) };
                        nid.as_ifloat_kind(store).ok_or_else(invalid_node)?.set_value(f, dev, store, cx)?
                    }
                    ValS::Str(s) => nid.as_istring_kind(store).ok_or_else(invalid_node)?.set_value(String::from_utf8_lossy(s).to_string(), dev, store, cx)?,
                }
                Out::Unit
            }
            Op::Read(n, l) => {
                let mut buf = vec![0xEEu8; *l];
                ids[*n].as_iregister_kind(store).ok_or_else(invalid_node)?.read(&mut buf, dev, store, cx)?;
                Out::Bytes(buf)
            }
            Op::Write(n, d) => {
                ids[*n].as_iregister_kind(store).ok_or_else(invalid_node)?.write(d, dev, store, cx)?;
                Out::Unit
            }
            Op::Execute(n) => {
                ids[*n].as_icommand_kind(store).ok_or_else(invalid_node)?.execute(dev, store, cx)?;
                Out::Unit
            }
            Op::IsDone(n) => Out::Bool(ids[*n].as_icommand_kind(store).ok_or_else(invalid_node)?.is_done(dev, store, cx)?),
            Op::PortRead(n, a, l) => {
                let mut buf = vec![0xEEu8; *l];
                ids[*n].as_iport_kind(store).ok_or_else(invalid_node)?.read(*a, &mut buf, dev, store, cx)?;
                Out::Bytes(buf)
            }
            Op::PortWrite(n, a, d) => {
                ids[*n].as_iport_kind(store).ok_or_else(invalid_node)?.write(*a, d, dev, store, cx)?;
                Out::Unit
            }
            Op::ClearCache => {
                cx.clear_cache();
                Out::Unit
            }
            Op::Address(n) => Out::Int(ids[*n].as_iregister_kind(store).ok_or_else(invalid_node)?.address(dev, store, cx)?),
            Op::IsReadable(n) => {
                let nid = ids[*n];
                Out::Bool(if let Some(x) = nid.as_iinteger_kind(store) {
                    x.is_readable(dev, store, cx)?
                } else if let Some(x) = nid.as_ifloat_kind(store) {
                    x.is_readable(dev, store, cx)?
                } else if let Some(x) = nid.as_istring_kind(store) {
                    x.is_readable(dev, store, cx)?
                } else if let Some(x) = nid.as_ienumeration_kind(store) {
                    x.is_readable(dev, store, cx)?
                } else if let Some(x) = nid.as_iboolean_kind(store) {
                    x.is_readable(dev, store, cx)?
                } else {
                    return Err(invalid_node());
                })
            }
            Op::IsWritable(n) => {
                let nid = ids[*n];
                Out::Bool(if let Some(x) = nid.as_iinteger_kind(store) {
                    x.is_writable(dev, store, cx)?
                } else if let Some(x) = nid.as_ifloat_kind(store) {
                    x.is_writable(dev, store, cx)?
                } else if let Some(x) = nid.as_istring_kind(store) {
                    x.is_writable(dev, store, cx)?
                } else if let Some(x) = nid.as_ienumeration_kind(store) {
                    x.is_writable(dev, store, cx)?
                } else if let Some(x) = nid.as_iboolean_kind(store) {
                    x.is_writable(dev, store, cx)?
                } else if let Some(x) = nid.as_icommand_kind(store) {
                    x.is_writable(dev, store, cx)?
                } else {
                    return Err(invalid_node());
                })
            }
        })
    });
    match r {
        Err(()) => Out::Panic,
        Ok(Err(e)) => Out::Err(err_name(&e)),
        Ok(Ok(o)) => o,
    }
}

struct RunResult {
    outs: Vec<Out>,
    /// log length after each op
    marks: Vec<usize>,
    mem: Vec<u8>,
    log: Vec<Access>,
}

fn run_hist<S: CacheStore>(nodes: &[NodeSpec], ids: &[NodeId], store: &DefaultNodeStore, cx: &mut ValueCtxt<DefaultValueStore, S>, dspec: &DevSpec, ops: &[Op]) -> RunResult {
    let mut dev = Dev::new(dspec);
    let mut outs = vec![];
    let mut marks = vec![];
    for op in ops {
        let o = run_op(nodes, ids, store, cx, &mut dev, op);
        let stop = o == Out::Panic;
        outs.push(o);
        marks.push(dev.log.len());
        if stop {
            break;
        }
    }
    RunResult { outs, marks, mem: dev.mem, log: dev.log }
}

fn answer(r: &RunResult) -> String {
    let res = if r.outs.is_empty() { "-".to_string() } else { r.outs.iter().map(out_str).collect::<Vec<_>>().join(",") };
    format!("{}#{}#{}", res, hex(&r.mem), log_str(&r.log))
}

/// `pInvalidator` lists as the parser actually stored them (positions by node name).
fn effective_invs(store: &DefaultNodeStore, nid: NodeId) -> Option<Vec<usize>> {
    let rb = match store.node_opt(nid)? {
        NodeData::IntReg(n) => n.register_base(),
        NodeData::MaskedIntReg(n) => n.register_base(),
        NodeData::FloatReg(n) => n.register_base(),
        NodeData::StringReg(n) => n.register_base(),
        NodeData::Register(n) => n.register_base(),
        _ => return None,
    };
    Some(rb.p_invalidators().iter().map(|i| store.name_by_id(*i).and_then(|s| s[1..].parse().ok()).unwrap_or(usize::MAX)).collect())
}

/// Cachable / AccessMode as the parser stored them
fn effective_mode_acc(store: &DefaultNodeStore, nid: NodeId) -> Option<(Mode, Acc)> {
    use cameleon_genapi::elem_type::{AccessMode, CachingMode};
    let rb = match store.node_opt(nid)? {
        NodeData::IntReg(n) => n.register_base(),
        NodeData::MaskedIntReg(n) => n.register_base(),
        NodeData::FloatReg(n) => n.register_base(),
        NodeData::StringReg(n) => n.register_base(),
        NodeData::Register(n) => n.register_base(),
        _ => return None,
    };
    let m = match rb.cacheable() {
        CachingMode::WriteThrough => Mode::WT,
        CachingMode::WriteAround => Mode::WA,
        CachingMode::NoCache => Mode::NC,
    };
    let a = match rb.access_mode() {
        AccessMode::RO => Acc::RO,
        AccessMode::WO => Acc::WO,
        AccessMode::RW => Acc::RW,
    };
    Some((m, a))
}

// ---------------------------------------------------------------- Declared (mirror of the Lean predicate; tied through `c04 decl`)

/// values a selector node can have as far as its kind tells (mirror of `selRange`)
fn sel_range(nodes: &[NodeSpec], s: usize) -> Option<(i128, i128)> {
    match nodes.get(s)? {
        NodeSpec::Reg(RegSpec { kind: Kind::Int { signed: false, .. }, len, .. }) if matches!(len, 1 | 2 | 4) => Some((0, (1i128 << (8 * len)) - 1)),
        NodeSpec::Reg(RegSpec { kind: Kind::Int { signed: true, .. }, len, .. }) if matches!(len, 1 | 2 | 4 | 8) => Some((-(1i128 << (8 * len - 1)), (1i128 << (8 * len - 1)) - 1)),
        _ => None,
    }
}

/// address hull `[lo, hi)` of a register (mirror of `hull`)
fn hull(nodes: &[NodeSpec], r: &RegSpec) -> Option<(i128, i128)> {
    match r.sel {
        None => Some((r.base as i128, r.base as i128 + r.len as i128)),
        Some((s, off)) => {
            let (lo, hi) = sel_range(nodes, s)?;
            let (x, y) = (lo * off as i128, hi * off as i128);
            Some((r.base as i128 + x.min(y), r.base as i128 + x.max(y) + r.len as i128))
        }
    }
}

fn may_overlap(nodes: &[NodeSpec], w: usize, rw: &RegSpec, t: usize, rt: &RegSpec) -> bool {
    let dev_profile = profile() == "dev";
    if w == t {
        match rt.sel {
            None => false,
            Some((_, off)) => (off.unsigned_abs() as u128) < rt.len as u128 || !dev_profile,
        }
    } else if (rw.sel.is_some() || rt.sel.is_some()) && !dev_profile {
        true
    } else {
        match (hull(nodes, rw), hull(nodes, rt)) {
            (Some((a, b)), Some((c, d))) => a < d && c < b,
            _ => true,
        }
    }
}

fn needed_pairs(nodes: &[NodeSpec]) -> Vec<(usize, usize)> {
    let mut v = vec![];
    for (w, nw) in nodes.iter().enumerate() {
        for (t, nt) in nodes.iter().enumerate() {
            if let (NodeSpec::Reg(rw), NodeSpec::Reg(rt)) = (nw, nt) {
                if rt.mode != Mode::NC && may_overlap(nodes, w, rw, t, rt) {
                    v.push((w, t));
                }
            }
        }
    }
    v
}

fn declared(nodes: &[NodeSpec]) -> bool {
    needed_pairs(nodes).iter().all(|(w, t)| match (&nodes[*w], &nodes[*t]) {
        (NodeSpec::Reg(rw), NodeSpec::Reg(rt)) => rt.invs.contains(w) || rt.invs.contains(&rw.port),
        _ => true,
    })
}

fn port_declared(nodes: &[NodeSpec], pn: usize) -> bool {
    nodes.iter().all(|n| match n {
        NodeSpec::Reg(rt) => rt.mode == Mode::NC || rt.invs.contains(&pn),
        _ => true,
    })
}

// ---------------------------------------------------------------- generator

fn int_kind(n: &NodeSpec) -> bool {
    matches!(n, NodeSpec::Reg(RegSpec { kind: Kind::Int { .. } | Kind::Masked { .. }, .. }) | NodeSpec::Integer(..) | NodeSpec::Enumeration(..))
}

/// any node except a FloatReg: `NodeId::value::<i64>` on a float node converts `f64 as i64`,
/// which the cache-layer model does not cover (pValue / pIndex targets are integer-valued
/// nodes or nodes without a numeric interface).
fn pick_non_float(rng: &mut Rng, nodes: &[NodeSpec]) -> usize {
    loop {
        let i = rng.below(nodes.len() as u64) as usize;
        if !matches!(nodes[i], NodeSpec::Reg(RegSpec { kind: Kind::Float { .. }, .. })) {
            return i;
        }
    }
}

fn gen_mode(rng: &mut Rng) -> Mode {
    match rng.below(20) {
        0..=7 => Mode::WT,
        8..=14 => Mode::WA,
        _ => Mode::NC,
    }
}
fn gen_acc(rng: &mut Rng) -> Acc {
    match rng.below(12) {
        0 => Acc::RO,
        1 => Acc::WO,
        _ => Acc::RW,
    }
}

fn gen_masked_bits(rng: &mut Rng, len: u64, be: bool) -> (u64, u64) {
    // normalised (l', m'), width <= 32, never reaching bit 63 of an 8 byte register
    let bits = len * 8;
    let top = if len == 8 { 62 } else { bits - 1 };
    let l = rng.below(top + 1);
    let m = (l + rng.below(32.min(top - l + 1))).min(top);
    if be {
        (bits - 1 - l, bits - 1 - m)
    } else {
        (l, m)
    }
}

#[derive(Clone, Copy, PartialEq, Eq, Debug)]
enum Stream {
    /// every needed (writer, cached target) pair lists the writer or its port
    Declared,
    /// some needed declarations dropped (tie only)
    Undeclared,
    /// needed declarations placed on the FEATURE nodes above the writer; writes only through features
    Via,
    /// declared graph plus pIsImplemented / pIsAvailable / pIsLocked controllers and is_* queries
    /// (implementation-vs-implementation only: controllers are not in the model)
    Ctl,
}

fn is_feature(n: &NodeSpec) -> bool {
    matches!(n, NodeSpec::Integer(..) | NodeSpec::Command(..) | NodeSpec::Boolean(..) | NodeSpec::Enumeration(..))
}

/// nodes a feature forwards a write to
fn children(n: &NodeSpec) -> Vec<usize> {
    match n {
        NodeSpec::Integer(pv, cs) => std::iter::once(*pv).chain(cs.iter().copied()).collect(),
        NodeSpec::Command(pv, _) | NodeSpec::Boolean(pv, ..) | NodeSpec::Enumeration(pv, _) => vec![*pv],
        _ => vec![],
    }
}

/// registers a write entering at `e` can reach
fn reach_regs(nodes: &[NodeSpec], e: usize, depth: usize, out: &mut Vec<usize>) {
    if depth == 0 || e >= nodes.len() {
        return;
    }
    match &nodes[e] {
        NodeSpec::Reg(_) => {
            if !out.contains(&e) {
                out.push(e)
            }
        }
        n => {
            for c in children(n) {
                reach_regs(nodes, c, depth - 1, out)
            }
        }
    }
}

/// registers read while evaluating node `n` as an integer (selector cones)
fn read_cone(nodes: &[NodeSpec], n: usize, depth: usize, out: &mut Vec<usize>) {
    if depth == 0 || n >= nodes.len() {
        return;
    }
    match &nodes[n] {
        NodeSpec::Reg(r) => {
            if !out.contains(&n) {
                out.push(n);
            }
            if let Some((s, _)) = r.sel {
                read_cone(nodes, s, depth - 1, out)
            }
        }
        NodeSpec::Integer(pv, _) | NodeSpec::Enumeration(pv, _) => read_cone(nodes, *pv, depth - 1, out),
        _ => {}
    }
}

/// nodes a WRITE is forwarded to: a Boolean / Command forwards only when it is the entry node of
/// the operation (`IBoolean::set_value`, `ICommand::execute`); reached through a `pValue` chain
/// (`NodeId::set_value::<i64>`) it is not writable and nothing below it is touched.
fn write_children(n: &NodeSpec, top: bool) -> Vec<usize> {
    match n {
        NodeSpec::Command(..) | NodeSpec::Boolean(..) if !top => vec![],
        _ => children(n),
    }
}

/// registers a write entering at `e` can really reach (see `write_children`)
fn reach_regs_w(nodes: &[NodeSpec], e: usize, depth: usize, top: bool, out: &mut Vec<usize>) {
    if depth == 0 || e >= nodes.len() {
        return;
    }
    match &nodes[e] {
        NodeSpec::Reg(_) => {
            if !out.contains(&e) {
                out.push(e)
            }
        }
        n => {
            for c in write_children(n, top) {
                reach_regs_w(nodes, c, depth - 1, false, out)
            }
        }
    }
}

/// every path a write takes from `x` down to register `w` passes a node of `invs` (other than `w`)
fn paths_covered_w(nodes: &[NodeSpec], x: usize, w: usize, invs: &[usize], depth: usize, top: bool) -> bool {
    if depth == 0 || x >= nodes.len() {
        return false;
    }
    match &nodes[x] {
        NodeSpec::Reg(_) => x != w,
        n if is_feature(n) => {
            let cs = write_children(n, top);
            // a Boolean / Command below the entry stops the write: nothing to cover
            (cs.is_empty() && !top) || invs.contains(&x) || cs.iter().all(|c| paths_covered_w(nodes, *c, w, invs, depth - 1, false))
        }
        _ => true,
    }
}

/// entry node of a writing operation
fn write_entry(nodes: &[NodeSpec], op: &Op) -> Option<usize> {
    match op {
        // `set_value` of a Command / Port fails with InvalidNode before anything happens
        Op::SetValue(n, _) if !matches!(nodes.get(*n), Some(NodeSpec::Command(..)) | Some(NodeSpec::Port) | None) => Some(*n),
        // `execute` of something that is not a Command / raw write of something that is not a
        // register fails with InvalidNode before anything happens
        Op::Execute(n) if matches!(nodes.get(*n), Some(NodeSpec::Command(..))) => Some(*n),
        Op::Write(n, _) if matches!(nodes.get(*n), Some(NodeSpec::Reg(_))) => Some(*n),
        _ => None,
    }
}

/// `Declared` in the wider sense of DESIGN 5/C04(i): a needed pair may instead list "the
/// writing node on the path" — for THIS history: every writing operation that can reach `w`
/// passes, on every path, a feature node listed by `t` (whose `set_value`/`execute` runs
/// `invalidate_cache_by(self)` first), and the operation touches `t` in no other way
/// (so nothing re-populates `t` between that invalidation and the write).
fn declared_for_history(nodes: &[NodeSpec], ops: &[Op]) -> (bool, bool) {
    let d = nodes.len() + 2;
    let mut plain = true;
    for (w, t) in needed_pairs(nodes) {
        let (rw, rt) = match (&nodes[w], &nodes[t]) {
            (NodeSpec::Reg(rw), NodeSpec::Reg(rt)) => (rw, rt),
            _ => continue,
        };
        if rt.invs.contains(&w) || rt.invs.contains(&rw.port) {
            continue;
        }
        plain = false;
        for e in ops.iter().filter_map(|op| write_entry(nodes, op)) {
            let mut regs = vec![];
            reach_regs_w(nodes, e, d, true, &mut regs);
            if !regs.contains(&w) {
                continue;
            }
            if !paths_covered_w(nodes, e, w, &rt.invs, d, true) {
                return (false, false);
            }
            // footprint of the operation: everything it writes, and everything read for the addresses
            let mut touched = vec![];
            for r in &regs {
                read_cone(nodes, *r, d, &mut touched);
            }
            if touched.contains(&t) {
                return (false, false);
            }
        }
    }
    (plain, true)
}

fn gen_case(rng: &mut Rng, stream: Stream, thorough: bool) -> Case {
    let undeclared = stream == Stream::Undeclared;
    let n_mem = rng.range(12, 40) as usize;
    let mut mem = rng.bytes(n_mem);
    if rng.chance(1, 6) {
        for b in mem.iter_mut() {
            *b &= 0x7f;
        }
    }
    let mut nodes = vec![NodeSpec::Port];
    let mut ports = vec![0usize];
    if rng.chance(1, 3) {
        ports.push(nodes.len());
        nodes.push(NodeSpec::Port);
    }
    let anchors: Vec<i64> = (0..3).map(|_| rng.below(n_mem as u64 - 4) as i64).collect();
    let place = |rng: &mut Rng, len: u64| -> i64 {
        match rng.below(20) {
            0 => -(rng.below(3) as i64) - 1,
            1 => n_mem as i64 - rng.below(len + 2) as i64,
            2..=12 => (*rng.pick(&anchors) + rng.below(5) as i64 - 2).clamp(0, (n_mem as i64 - len as i64).max(0)),
            _ => rng.below((n_mem as u64).saturating_sub(len) + 1) as i64,
        }
    };
    let pick_port = |rng: &mut Rng, ports: &[usize]| -> usize { *rng.pick(ports) };
    // selectors: plain IntRegs, Integer features over them, selector-addressed selectors
    let n_sel = rng.below(3) as usize;
    let mut selectors = vec![];
    for k in 0..n_sel {
        let len = if rng.chance(1, 5) { 2 } else { 1 };
        let base = rng.below(n_mem as u64 - len) as i64;
        let be = rng.bool();
        for k in 0..len as usize {
            mem[base as usize + k] = 0;
        }
        // mostly small selector values, sometimes anything the register can hold
        let v = if rng.chance(1, 6) { rng.next_u64() as u8 } else { rng.below(4) as u8 };
        let pos = if be { base as usize + len as usize - 1 } else { base as usize };
        mem[pos] = v;
        // a selector that is itself selector-addressed (by an earlier selector)
        let sel = if k > 0 && rng.chance(1, 4) { Some((selectors[0], *rng.pick(&[1i64, 1, 2, -1]))) } else { None };
        let reg = nodes.len();
        nodes.push(NodeSpec::Reg(RegSpec { kind: Kind::Int { be, signed: rng.chance(1, 5) }, base, sel, len, mode: gen_mode(rng), acc: Acc::RW, invs: vec![], port: pick_port(rng, &ports), group: None, decl: None }));
        if rng.chance(1, 4) {
            // the selector used by registers is an Integer feature over the register
            selectors.push(nodes.len());
            nodes.push(NodeSpec::Integer(reg, vec![]));
        } else {
            selectors.push(reg);
        }
    }
    let gen_sel = |rng: &mut Rng, selectors: &[usize], len: u64| -> Option<(usize, i64)> {
        if selectors.is_empty() || !rng.chance(3, 10) {
            return None;
        }
        let off = match rng.below(12) {
            0 => -1,
            1 => -2,
            2 => 0,
            3 | 4 => len as i64,
            5 => i64::MAX / 2,
            6 => 1,
            7 => 2,
            8 => 4,
            _ => rng.range(1, 8) as i64,
        };
        Some((*rng.pick(selectors), off))
    };
    // plain registers
    let n_regs = rng.range(2, 6);
    for _ in 0..n_regs {
        let (kind, len) = match rng.below(10) {
            0..=2 => (Kind::Int { be: rng.bool(), signed: rng.bool() }, if rng.chance(1, 12) { 3 } else { *rng.pick(&[1u64, 2, 2, 4, 4, 8]) }),
            3..=4 => {
                let len = *rng.pick(&[1u64, 2, 4, 4, 8]);
                let be = rng.bool();
                let (lsb, msb) = gen_masked_bits(rng, len, be);
                (Kind::Masked { be, signed: rng.bool(), lsb, msb }, len)
            }
            5 => (Kind::Float { be: rng.bool() }, if rng.chance(1, 10) { 2 } else { *rng.pick(&[4u64, 8]) }),
            6..=7 => (Kind::Str, rng.range(1, 8)),
            _ => {
                let lo = if rng.chance(1, 10) { 0 } else { 1 };
                (Kind::Raw, rng.range(lo, 8))
            }
        };
        let base = place(rng, len);
        let sel = gen_sel(rng, &selectors, len);
        // rarely pPort names a node that is not a port (every access: InvalidNode)
        let port = if rng.chance(1, 40) && nodes.len() > 2 { nodes.len() - 1 } else { pick_port(rng, &ports) };
        nodes.push(NodeSpec::Reg(RegSpec { kind, base, sel, len, mode: gen_mode(rng), acc: gen_acc(rng), invs: vec![], port, group: None, decl: None }));
    }
    // struct groups
    let n_groups = if rng.chance(1, 2) { rng.range(1, 2) } else { 0 };
    for gid in 0..n_groups as usize {
        let len = *rng.pick(&[1u64, 2, 4]);
        let be = rng.bool();
        let base = place(rng, len);
        let sel = if rng.chance(1, 4) { gen_sel(rng, &selectors, len) } else { None };
        let port = pick_port(rng, &ports);
        // Cachable / AccessMode declared at struct level, entry level, both (possibly different
        // values) or neither; the effective value follows the XML semantics
        let s_mode = if rng.bool() { Some(gen_mode(rng)) } else { None };
        let s_acc = if rng.bool() { Some(gen_acc(rng)) } else { None };
        for _ in 0..rng.range(1, 3) {
            let (lsb, msb) = gen_masked_bits(rng, len, be);
            let d = EntryDecl { s_mode, s_acc, s_invs: vec![], e_mode: if rng.bool() { Some(gen_mode(rng)) } else { None }, e_acc: if rng.bool() { Some(gen_acc(rng)) } else { None }, e_invs: vec![] };
            nodes.push(NodeSpec::Reg(RegSpec { kind: Kind::Masked { be, signed: rng.chance(1, 3), lsb, msb }, base, sel, len, mode: d.eff_mode(), acc: d.eff_acc(), invs: vec![], port, group: Some(gid), decl: Some(d) }));
        }
    }
    // features: Integer (pValue, pValueCopy*), Boolean, Enumeration, Command
    let n_feat = if stream == Stream::Via { rng.range(3, 7) } else { rng.below(6) };
    for _ in 0..n_feat {
        let cands: Vec<usize> = (0..nodes.len()).filter(|i| int_kind(&nodes[*i])).collect();
        let pv = if cands.is_empty() || rng.chance(1, 15) { pick_non_float(rng, &nodes) } else { *rng.pick(&cands) };
        match rng.below(10) {
            0..=4 => {
                let mut copies = vec![];
                if !cands.is_empty() && rng.chance(1, 3) {
                    for _ in 0..rng.range(1, 2) {
                        copies.push(if rng.chance(1, 12) { pick_non_float(rng, &nodes) } else { *rng.pick(&cands) });
                    }
                }
                nodes.push(NodeSpec::Integer(pv, copies));
            }
            5..=6 => {
                let (on, off) = if rng.bool() { (1, 0) } else { (rng.below(6) as i64, 6 + rng.below(6) as i64) };
                nodes.push(NodeSpec::Boolean(pv, on, off));
            }
            7..=8 => {
                let mut vs: Vec<i64> = (0..rng.range(2, 4)).map(|_| rng.below(8) as i64).collect();
                vs.dedup();
                nodes.push(NodeSpec::Enumeration(pv, vs));
            }
            _ => nodes.push(NodeSpec::Command(pv, rng.below(200) as i64)),
        }
    }
    if rng.chance(1, 2) {
        let cands: Vec<usize> = (0..nodes.len()).filter(|i| int_kind(&nodes[*i])).collect();
        let pv = if cands.is_empty() { pick_non_float(rng, &nodes) } else { *rng.pick(&cands) };
        nodes.push(NodeSpec::Command(pv, rng.below(200) as i64));
    }
    // pInvalidator declarations
    let port_everywhere = rng.chance(1, 5);
    let needed = needed_pairs(&nodes);
    let depth = nodes.len() + 2;
    for (w, t) in &needed {
        if undeclared && rng.chance(2, 5) {
            continue;
        }
        let wport = match &nodes[*w] {
            NodeSpec::Reg(r) => r.port,
            _ => 0,
        };
        // features above the writer (for the via-feature stream)
        let above: Vec<usize> = (0..nodes.len())
            .filter(|f| is_feature(&nodes[*f]) && {
                let mut rs = vec![];
                reach_regs(&nodes, *f, depth, &mut rs);
                rs.contains(w)
            })
            .collect();
        if stream == Stream::Via && above.is_empty() && rng.bool() {
            // nothing in this stream can write `w` (writes enter through features only)
            continue;
        }
        let via_safe = w != t
            && above.iter().all(|f| {
                let mut rs = vec![];
                reach_regs(&nodes, *f, depth, &mut rs);
                let mut touched = vec![];
                for r in &rs {
                    read_cone(&nodes, *r, depth, &mut touched);
                }
                !touched.contains(t)
            });
        let add: Vec<usize> = if stream == Stream::Via && !above.is_empty() && via_safe && rng.chance(9, 10) {
            if rng.chance(9, 10) {
                above.clone()
            } else {
                above.iter().copied().filter(|_| rng.bool()).collect()
            }
        } else if rng.chance(1, 4) {
            vec![wport]
        } else {
            vec![*w]
        };
        if let NodeSpec::Reg(rt) = &mut nodes[*t] {
            for x in add {
                if !rt.invs.contains(&x) {
                    rt.invs.push(x);
                }
            }
        }
    }
    let n_nodes = nodes.len();
    for n in nodes.iter_mut() {
        if let NodeSpec::Reg(r) = n {
            if port_everywhere && r.mode != Mode::NC && !(undeclared && rng.chance(1, 3)) {
                for p in &ports {
                    if !r.invs.contains(p) {
                        r.invs.push(*p);
                    }
                }
            }
            if rng.chance(1, 6) {
                let x = rng.below(n_nodes as u64) as usize;
                if !r.invs.contains(&x) {
                    r.invs.push(x);
                }
            }
        }
    }
    // StructReg groups: place the pInvalidator lists at struct level, entry level, both or neither
    // (an entry without own pInvalidators inherits the StructReg's list)
    {
        let gids: Vec<usize> = nodes.iter().filter_map(|n| if let NodeSpec::Reg(r) = n { r.group } else { None }).collect();
        for gid in gids.iter().copied().collect::<std::collections::BTreeSet<_>>() {
            let members: Vec<usize> = (0..nodes.len()).filter(|i| matches!(&nodes[*i], NodeSpec::Reg(r) if r.group == Some(gid))).collect();
            let mut union: Vec<usize> = vec![];
            for m in &members {
                if let NodeSpec::Reg(r) = &nodes[*m] {
                    for x in &r.invs {
                        if !union.contains(x) {
                            union.push(*x);
                        }
                    }
                }
            }
            let s_invs: Vec<usize> = match rng.below(4) {
                0 => vec![],
                1 => match &nodes[*rng.pick(&members)] {
                    NodeSpec::Reg(r) => r.invs.clone(),
                    _ => vec![],
                },
                _ => union.clone(),
            };
            for m in &members {
                if let NodeSpec::Reg(r) = &mut nodes[*m] {
                    let covers = r.invs.iter().all(|x| s_invs.contains(x));
                    // inherit when that loses nothing (struct list is a superset), sometimes; an
                    // entry with nothing to declare inherits by force
                    let inherit = r.invs.is_empty() || (covers && rng.bool());
                    let e_invs = if inherit { vec![] } else { r.invs.clone() };
                    if let Some(d) = &mut r.decl {
                        d.s_invs = s_invs.clone();
                        d.e_invs = e_invs;
                        r.invs = d.eff_invs();
                    }
                }
            }
        }
    }
    // controllers (Ctl stream): pIsImplemented / pIsAvailable / pIsLocked -> integer-valued or Boolean nodes
    let mut ctls = vec![];
    if stream == Stream::Ctl {
        let ctl_targets: Vec<usize> = (0..nodes.len()).filter(|i| int_kind(&nodes[*i]) || matches!(nodes[*i], NodeSpec::Boolean(..))).collect();
        if !ctl_targets.is_empty() {
            for i in 0..nodes.len() {
                let gated = match &nodes[i] {
                    NodeSpec::Reg(r) => r.group.is_none(),
                    n => is_feature(n),
                };
                if gated && rng.chance(1, 2) {
                    let mut k = [None, None, None];
                    for slot in k.iter_mut() {
                        if rng.chance(2, 5) {
                            let c = *rng.pick(&ctl_targets);
                            if c != i {
                                *slot = Some(c);
                            }
                        }
                    }
                    if k.iter().any(|x| x.is_some()) {
                        ctls.push((i, k));
                    }
                }
            }
        }
    }
    // device script
    let mut dev = DevSpec { mem, no_access: vec![], no_write: vec![], rej_w: vec![], rej_p: vec![] };
    if rng.chance(1, 8) {
        dev.no_access.push((rng.below(n_mem as u64) as i64, rng.range(1, 3)));
    }
    if rng.chance(1, 6) {
        dev.no_write.push((rng.below(n_mem as u64) as i64, rng.range(1, 4)));
    }
    if rng.chance(1, 4) {
        for _ in 0..rng.range(1, 3) {
            dev.rej_w.push(rng.below(12));
        }
    }
    if rng.chance(1, 3) {
        for _ in 0..rng.range(1, 3) {
            let k = rng.below(12);
            if dev.rej_p.iter().all(|p| p.0 != k) {
                let (n1, n2) = (rng.range(1, 8) as usize, rng.range(0, 3) as usize);
                let (m, junk) = match rng.below(4) {
                    0 => (n1, vec![]),          // first m bytes applied, then failure
                    1 => (64, vec![]),          // fully applied, acknowledge lost
                    2 => (0, rng.bytes(n1)),    // garbage left behind
                    _ => (n2, rng.bytes(n2)),
                };
                dev.rej_p.push((k, m, junk));
            }
        }
    }
    // history
    let n_ops = rng.range(6, if thorough { 70 } else { 36 }) as usize;
    let regs: Vec<usize> = (0..nodes.len()).filter(|i| matches!(nodes[*i], NodeSpec::Reg(_))).collect();
    let cmds: Vec<usize> = (0..nodes.len()).filter(|i| matches!(nodes[*i], NodeSpec::Command(..))).collect();
    let feats: Vec<usize> = (0..nodes.len()).filter(|i| is_feature(&nodes[*i]) && !matches!(nodes[*i], NodeSpec::Command(..))).collect();
    let mut valued: Vec<usize> = (0..nodes.len()).filter(|i| !matches!(nodes[*i], NodeSpec::Port | NodeSpec::Command(..) | NodeSpec::Reg(RegSpec { kind: Kind::Raw, .. }))).collect();
    if valued.is_empty() {
        valued = regs.clone();
    }
    // in the via-feature stream writes enter through features only
    let writable: Vec<usize> = if stream == Stream::Via && !feats.is_empty() { feats.clone() } else { valued.clone() };
    let direct_writes = stream != Stream::Via;
    let wport = *rng.pick(&ports);
    let allow_port_write = direct_writes && (port_declared(&nodes, wport) || undeclared || rng.chance(1, 10));
    let mut ops = vec![];
    while ops.len() < n_ops {
        match rng.below(100) {
            0..=15 => ops.push(gen_value(rng, &nodes, &valued)),
            16..=27 if stream != Stream::Ctl => ops.push(gen_value(rng, &nodes, &valued)),
            16..=29 if stream == Stream::Ctl => {
                let n = if !ctls.is_empty() && rng.chance(3, 4) { rng.pick(&ctls).0 } else { rng.below(nodes.len() as u64) as usize };
                ops.push(if rng.bool() { Op::IsReadable(n) } else { Op::IsWritable(n) });
            }
            30..=51 => ops.push(gen_set(rng, &nodes, &writable)),
            52..=58 => {
                let n = *rng.pick(&regs);
                ops.push(gen_read(rng, &nodes, n));
            }
            59..=67 if direct_writes => {
                let n = *rng.pick(&regs);
                ops.push(gen_write(rng, &nodes, n));
            }
            59..=67 if stream == Stream::Ctl || !cmds.is_empty() => {
                if !cmds.is_empty() {
                    ops.push(Op::Execute(*rng.pick(&cmds)))
                }
            }
            68..=72 if !cmds.is_empty() => ops.push(Op::Execute(*rng.pick(&cmds))),
            73..=76 if !cmds.is_empty() => ops.push(Op::IsDone(*rng.pick(&cmds))),
            77..=78 => ops.push(Op::PortRead(*rng.pick(&ports), rng.below(n_mem as u64 + 2) as i64 - 1, rng.range(0, 4) as usize)),
            79..=81 if allow_port_write => {
                let l = rng.range(1, 4) as usize;
                ops.push(Op::PortWrite(wport, rng.below(n_mem as u64) as i64, rng.bytes(l)));
            }
            82 => ops.push(Op::ClearCache),
            83 => ops.push(Op::Address(*rng.pick(&regs))),
            84 | 96 | 97 if direct_writes => {
                // selector switching: the same register read at two addresses, interleaved
                let sel_regs: Vec<usize> = regs.iter().copied().filter(|i| matches!(&nodes[*i], NodeSpec::Reg(r) if r.sel.is_some())).collect();
                if let Some(&rn) = sel_regs.get(rng.below(sel_regs.len().max(1) as u64) as usize) {
                    let sn = match &nodes[rn] {
                        NodeSpec::Reg(r) => r.sel.unwrap().0,
                        _ => unreachable!(),
                    };
                    let read = |rng: &mut Rng| if valued.contains(&rn) && rng.chance(2, 3) { Op::Value(rn) } else { gen_read(rng, &nodes, rn) };
                    let big = rng.chance(1, 8);
                    let mut k = |rng: &mut Rng| if big { rng.below(256) as i64 } else { rng.below(4) as i64 };
                    let (k1, k2) = (k(rng), k(rng));
                    ops.push(Op::SetValue(sn, ValS::Int(k1)));
                    ops.push(read(rng));
                    ops.push(Op::SetValue(sn, ValS::Int(k2)));
                    ops.push(read(rng));
                    if rng.bool() {
                        ops.push(if valued.contains(&rn) { gen_set_on(rng, &nodes, rn) } else { gen_write(rng, &nodes, rn) });
                    }
                    ops.push(Op::SetValue(sn, ValS::Int(k1)));
                    ops.push(read(rng));
                }
            }
            85..=92 if stream == Stream::Via => {
                // read a register that lists a feature, write through that feature, read again
                let cand: Vec<(usize, usize)> = regs
                    .iter()
                    .flat_map(|t| match &nodes[*t] {
                        NodeSpec::Reg(r) if r.mode != Mode::NC => r.invs.iter().filter(|f| nodes.get(**f).map_or(false, is_feature)).map(|f| (*t, *f)).collect::<Vec<_>>(),
                        _ => vec![],
                    })
                    .collect();
                if !cand.is_empty() {
                    let (t, f) = *rng.pick(&cand);
                    let rd = |rng: &mut Rng| if valued.contains(&t) { Op::Value(t) } else { gen_read(rng, &nodes, t) };
                    ops.push(rd(rng));
                    ops.push(if matches!(nodes[f], NodeSpec::Command(..)) { Op::Execute(f) } else { gen_set_on(rng, &nodes, f) });
                    ops.push(rd(rng));
                }
            }
            85..=95 => {
                // (read A, write B, read A) with B = A or another node
                let a = *rng.pick(&valued);
                let b = if direct_writes {
                    if rng.chance(1, 3) { a } else { *rng.pick(&regs) }
                } else {
                    *rng.pick(&writable)
                };
                ops.push(Op::Value(a));
                if direct_writes && (matches!(nodes[b], NodeSpec::Reg(RegSpec { kind: Kind::Raw, .. })) || rng.chance(1, 3)) {
                    if matches!(nodes[b], NodeSpec::Reg(_)) {
                        ops.push(gen_write(rng, &nodes, b));
                    }
                } else {
                    ops.push(gen_set_on(rng, &nodes, b));
                }
                ops.push(Op::Value(a));
            }
            _ => {
                // wrong-interface / odd calls
                let n = rng.below(nodes.len() as u64) as usize;
                ops.push(match rng.below(4) {
                    0 => Op::Value(n),
                    1 => Op::Execute(n),
                    2 => Op::Read(n, 2),
                    _ if direct_writes => Op::SetValue(n, ValS::Int(1)),
                    _ => Op::Value(n),
                });
            }
        }
    }
    Case { nodes, ctls, dev, ops }
}

fn gen_value(rng: &mut Rng, _nodes: &[NodeSpec], valued: &[usize]) -> Op {
    Op::Value(*rng.pick(valued))
}

fn gen_set(rng: &mut Rng, nodes: &[NodeSpec], valued: &[usize]) -> Op {
    let n = *rng.pick(valued);
    gen_set_on(rng, nodes, n)
}

/// the register an integer-valued node finally writes through (for picking sensible values)
fn resolve<'a>(nodes: &'a [NodeSpec], mut n: usize) -> Option<&'a RegSpec> {
    for _ in 0..nodes.len() + 1 {
        match &nodes[n] {
            NodeSpec::Reg(r) => return Some(r),
            NodeSpec::Integer(pv, _) | NodeSpec::Boolean(pv, ..) | NodeSpec::Enumeration(pv, _) => n = *pv,
            _ => return None,
        }
    }
    None
}

fn int_range(r: &RegSpec) -> Option<(i128, i128)> {
    match r.kind {
        Kind::Int { signed, .. } => {
            let bits = (r.len * 8).min(64) as u32;
            if bits == 0 {
                return None;
            }
            Some(if signed || bits == 64 { (-(1i128 << (bits - 1)), (1i128 << (bits - 1)) - 1) } else { (0, (1i128 << bits) - 1) })
        }
        Kind::Masked { be, signed, lsb, msb } => {
            let bits = r.len * 8;
            let (l, m) = if be { (bits.checked_sub(lsb + 1)?, bits.checked_sub(msb + 1)?) } else { (lsb, msb) };
            let w = (m.checked_sub(l)? + 1) as u32;
            Some(if signed { (-(1i128 << (w - 1)), (1i128 << (w - 1)) - 1) } else { (0, (1i128 << w) - 1) })
        }
        _ => None,
    }
}

fn gen_set_on(rng: &mut Rng, nodes: &[NodeSpec], n: usize) -> Op {
    match &nodes[n] {
        NodeSpec::Boolean(..) => return Op::SetValue(n, ValS::Bool(rng.bool())),
        NodeSpec::Enumeration(_, vs) if !vs.is_empty() && !rng.chance(1, 8) => return Op::SetValue(n, ValS::Int(*rng.pick(vs))),
        _ => {}
    }
    let r = resolve(nodes, n);
    let v = match r.map(|r| (&r.kind, r)) {
        Some((Kind::Float { .. }, r)) if matches!(nodes[n], NodeSpec::Reg(_)) => {
            if r.len == 4 {
                let mut b = rng.next_u64() as u32;
                if f32::from_bits(b).is_nan() {
                    b &= 0x7f7f_ffff;
                }
                ValS::Flt(4, b as u64)
            } else {
                let b = if rng.chance(1, 3) { (rng.below(1000) as f64 / 8.0).to_bits() } else { rng.next_u64() };
                ValS::Flt(8, if r.len == 8 { b } else { b & 0xffff })
            }
        }
        Some((Kind::Str, r)) if matches!(nodes[n], NodeSpec::Reg(_)) => {
            let l = match rng.below(10) {
                0 => r.len + 1,
                1 => 0,
                _ => rng.below(r.len + 1),
            } as usize;
            let mut s: Vec<u8> = (0..l).map(|_| rng.range(0x20, 0x7e) as u8).collect();
            if l > 0 && rng.chance(1, 15) {
                s[0] = 0;
            }
            if rng.chance(1, 15) {
                s = "é".as_bytes().to_vec();
            }
            ValS::Str(s)
        }
        Some((_, r)) => match int_range(r) {
            Some((lo, hi)) => {
                let span = (hi - lo + 1) as u128;
                let v = match rng.below(10) {
                    0 => lo - 1,
                    1 => hi + 1,
                    2 => lo,
                    3 => hi,
                    _ => lo + (rng.next_u64() as u128 % span) as i128,
                };
                ValS::Int(v.clamp(i64::MIN as i128, i64::MAX as i128) as i64)
            }
            None => ValS::Int(rng.below(300) as i64 - 20),
        },
        None => ValS::Int(rng.below(300) as i64 - 20),
    };
    Op::SetValue(n, v)
}

fn gen_read(rng: &mut Rng, nodes: &[NodeSpec], n: usize) -> Op {
    let len = match &nodes[n] {
        NodeSpec::Reg(r) => r.len as usize,
        _ => 2,
    };
    Op::Read(n, if rng.chance(1, 12) { len + 1 } else { len })
}

fn gen_write(rng: &mut Rng, nodes: &[NodeSpec], n: usize) -> Op {
    let len = match &nodes[n] {
        NodeSpec::Reg(r) => r.len as usize,
        _ => 2,
    };
    let l = if rng.chance(1, 12) { len.saturating_sub(1) } else { len };
    let d = if rng.chance(1, 3) { (0..l).map(|_| rng.below(4) as u8).collect() } else { rng.bytes(l) };
    Op::Write(n, d)
}

// ---------------------------------------------------------------- one case: run, oracle, tie

/// cached log = uncached log minus some successful reads (never more, same writes)
fn log_sub(c: &[Access], u: &[Access]) -> bool {
    let mut i = 0;
    for e in u {
        if i < c.len() && c[i] == *e {
            i += 1;
        } else if e.write || !e.ok {
            return false;
        }
    }
    i == c.len()
}

fn classify_graph(nodes: &[NodeSpec]) -> Vec<&'static str> {
    let mut v = vec![];
    let regs: Vec<(usize, &RegSpec)> = nodes.iter().enumerate().filter_map(|(i, n)| if let NodeSpec::Reg(r) = n { Some((i, r)) } else { None }).collect();
    if regs.iter().any(|(_, r)| r.sel.is_some()) {
        v.push("graph:selector-addressed");
    }
    if regs.iter().any(|(_, r)| r.group.is_some()) {
        v.push("graph:struct-entries");
    }
    if nodes.iter().any(|n| matches!(n, NodeSpec::Integer(_, cs) if !cs.is_empty())) {
        v.push("graph:integer-pValueCopy");
    }
    if nodes.iter().any(|n| matches!(n, NodeSpec::Command(..))) {
        v.push("graph:command");
    }
    if nodes.iter().any(|n| matches!(n, NodeSpec::Boolean(..))) {
        v.push("graph:boolean");
    }
    if nodes.iter().any(|n| matches!(n, NodeSpec::Enumeration(..))) {
        v.push("graph:enumeration");
    }
    if nodes.iter().filter(|n| matches!(n, NodeSpec::Port)).count() > 1 {
        v.push("graph:two-ports");
    }
    if regs.iter().any(|(_, r)| !matches!(nodes.get(r.port), Some(NodeSpec::Port))) {
        v.push("graph:pPort-not-a-port");
    }
    if regs.iter().any(|(_, r)| r.sel.map_or(false, |(s, _)| matches!(nodes.get(s), Some(NodeSpec::Integer(..))))) {
        v.push("graph:selector-is-integer-feature");
    }
    if regs.iter().any(|(_, r)| r.sel.map_or(false, |(s, _)| matches!(nodes.get(s), Some(NodeSpec::Reg(q)) if q.sel.is_some()))) {
        v.push("graph:selector-itself-selector-addressed");
    }
    if regs.iter().any(|(i, r)| regs.iter().any(|(j, q)| i != j && r.sel.is_none() && q.sel.is_none() && overlaps(r.base as i128, r.len as i128, q.base as i128, q.len as i128))) {
        v.push("graph:static-overlap");
    }
    for (m, k) in [(Mode::WT, "graph:has-WriteThrough"), (Mode::WA, "graph:has-WriteAround"), (Mode::NC, "graph:has-NoCache")] {
        if regs.iter().any(|(_, r)| r.mode == m) {
            v.push(k);
        }
    }
    v
}

fn do_case(rep: &mut Report, case: &Case, src: &str, replay: Value) {
    let xml = xml_of(&case.nodes, &case.ctls);
    let built_c = catch(|| GenApiBuilder::<DefaultNodeStore>::default().build(&xml));
    let built_u = catch(|| GenApiBuilder::<DefaultNodeStore>::default().no_cache().build(&xml));
    let ((_, store_c, mut cx_c), (_, store_u, mut cx_u)) = match (built_c, built_u) {
        (Ok(Ok(c)), Ok(Ok(u))) => (c, u),
        _ => {
            rep.count("build:failed");
            rep.violation(json!({"kind": "harness-xml-rejected"}), "generated XML was rejected by the real builder", replay);
            return;
        }
    };
    let ids_c: Vec<NodeId> = (0..case.nodes.len()).map(|i| store_c.id_by_name(format!("N{i}")).expect("node present")).collect();
    let ids_u: Vec<NodeId> = (0..case.nodes.len()).map(|i| store_u.id_by_name(format!("N{i}")).expect("node present")).collect();

    // The abstract description (what the model and the oracles see) is what the XML says, by
    // the XML semantics — never what the parser made of it.  The parsed node's getters are only
    // COMPARED with it (a difference is a finding of its own).
    let eff = case.nodes.clone();
    let mut lost_struct = false;
    let mut lost_other = false;
    for (i, n) in eff.iter().enumerate() {
        if let NodeSpec::Reg(r) = n {
            let got = effective_invs(&store_c, ids_c[i]).unwrap_or_default();
            if got != r.invs {
                if r.group.is_some() {
                    lost_struct = true;
                } else {
                    lost_other = true;
                }
            }
            if let Some((m, a)) = effective_mode_acc(&store_c, ids_c[i]) {
                if m != r.mode || a != r.acc {
                    rep.count("parse:register-cachable-or-accessmode-differs-from-xml");
                    if rep.dist.get("parse:register-cachable-or-accessmode-differs-from-xml") == Some(&1) {
                        rep.violation(
                            json!({"kind": if r.group.is_some() { "struct-entry-merge-wrong" } else { "register-attribute-wrong" }}),
                            &format!("node N{i}: the XML says Cachable={:?} AccessMode={:?} (struct level {:?}, entry level {:?}) but the parsed register has Cachable={m:?} AccessMode={a:?}", r.mode, r.acc, r.decl.as_ref().map(|d| (d.s_mode, d.s_acc)), r.decl.as_ref().map(|d| (d.e_mode, d.e_acc))),
                            replay.clone(),
                        );
                    }
                }
            }
        }
    }
    if lost_struct {
        rep.count("parse:struct-entry-invalidator-lost");
    }
    // reported once per run
    if lost_struct && rep.dist.get("parse:struct-entry-invalidator-lost") == Some(&1) {
        rep.violation(
            json!({"kind": "struct-entry-invalidator-lost"}),
            "the pInvalidator list of a StructEntry's MaskedIntReg differs from the XML (entry list, else the StructReg's): sibling entries sharing one register are cached without invalidation",
            replay.clone(),
        );
    }
    if lost_other {
        rep.violation(json!({"kind": "register-invalidator-lost"}), "pInvalidator list of a register differs from the XML after parsing", replay.clone());
    }

    let rc = run_hist(&eff, &ids_c, &store_c, &mut cx_c, &case.dev, &case.ops);
    let ru = run_hist(&eff, &ids_u, &store_u, &mut cx_u, &case.dev, &case.ops);

    let decl = declared(&eff);
    let (_, decl_hist) = declared_for_history(&eff, &case.ops);
    let hist_ok = case.ops.iter().all(|op| match op {
        Op::PortWrite(pn, ..) => port_declared(&eff, *pn),
        _ => true,
    });
    // controllers and is_* queries are in the model since the growth round
    let modelled = true;
    // the controller table travels as a trailing pseudo node `K/…` (never addressed by an operation)
    let g = if case.ctls.is_empty() {
        graph_str(&eff)
    } else {
        let o = |x: &Option<usize>| x.map_or("-".to_string(), |v| v.to_string());
        format!("{};K/{}", graph_str(&eff), case.ctls.iter().map(|(n, k)| format!("{n}:{}:{}:{}", o(&k[0]), o(&k[1]), o(&k[2]))).collect::<Vec<_>>().join(","))
    };
    let d = dev_str(&case.dev);
    let o = ops_str(&case.ops);
    let canon = format!("{g} {d} {o}");
    let some_hit = rc.log.len() < ru.log.len();
    let nontrivial = rc.outs.iter().filter(|x| !matches!(x, Out::Err(_) | Out::Panic)).count() >= 3 && rc.log.iter().any(|a| a.write && a.ok);
    rep.case(&canon, nontrivial);
    rep.count(&format!("case/{src}"));
    rep.count(if decl && hist_ok {
        "oracle:declared"
    } else if decl_hist && hist_ok {
        "oracle:declared-via-feature"
    } else if !decl_hist {
        "oracle:undeclared-graph(tie only)"
    } else {
        "oracle:port-write-undeclared(tie only)"
    });
    rep.count(&format!("class/{src}: {}", if decl && hist_ok { "declared" } else if decl_hist && hist_ok { "declared-via-feature" } else { "tie only" }));
    for n in eff.iter() {
        if let NodeSpec::Reg(RegSpec { decl: Some(d), mode, .. }) = n {
            rep.count(match (d.s_mode.is_some(), d.e_mode.is_some()) {
                (true, true) if d.s_mode != d.e_mode => "struct-entry:Cachable at both levels (different)",
                (true, true) => "struct-entry:Cachable at both levels (same)",
                (true, false) => "struct-entry:Cachable at struct level only",
                (false, true) => "struct-entry:Cachable at entry level only",
                (false, false) => "struct-entry:Cachable nowhere (default WriteThrough)",
            });
            if d.e_mode.is_some() != d.e_acc.is_some() {
                rep.count("struct-entry:declares exactly one of AccessMode / Cachable");
                if *mode == Mode::NC {
                    rep.count("struct-entry:... and is effectively NoCache");
                }
            }
            rep.count(match (d.s_invs.is_empty(), d.e_invs.is_empty()) {
                (false, false) => "struct-entry:pInvalidator at both levels",
                (false, true) => "struct-entry:pInvalidator inherited from the StructReg",
                (true, false) => "struct-entry:pInvalidator at entry level only",
                (true, true) => "struct-entry:pInvalidator nowhere",
            });
        }
    }
    if !modelled {
        rep.count("tie:skipped(controllers / is_* queries are not in the model)");
    }
    {
        // how much of the minimal declared set is placed where
        let mut n_plain = 0;
        let mut n_port = 0;
        let mut n_other = 0;
        for (w, t) in needed_pairs(&eff) {
            if let (NodeSpec::Reg(rw), NodeSpec::Reg(rt)) = (&eff[w], &eff[t]) {
                if rt.invs.contains(&w) {
                    n_plain += 1
                } else if rt.invs.contains(&rw.port) {
                    n_port += 1
                } else {
                    n_other += 1
                }
            }
        }
        *rep.dist.entry("decl:needed-pairs(listing writer)".into()).or_insert(0) += n_plain;
        *rep.dist.entry("decl:needed-pairs(listing port)".into()).or_insert(0) += n_port;
        *rep.dist.entry("decl:needed-pairs(feature only or missing)".into()).or_insert(0) += n_other;
    }
    // selector values actually used for addresses (distribution of the selector-addressed reads)
    for a in rc.log.iter().filter(|a| !a.write && a.ok) {
        for n in eff.iter() {
            if let NodeSpec::Reg(r) = n {
                if let Some((_, off)) = r.sel {
                    if off != 0 && a.len as u64 == r.len && (a.addr - r.base) % off == 0 {
                        let k = (a.addr - r.base) / off;
                        rep.count(if (0..4).contains(&k) { "sel:value 0..3" } else if (4..256).contains(&k) { "sel:value 4..255" } else { "sel:value other" });
                        break;
                    }
                }
            }
        }
    }
    if some_hit {
        rep.count("run:cache-served-a-read");
    }
    for k in classify_graph(&eff) {
        rep.count(k);
    }
    for (op, out) in case.ops.iter().zip(rc.outs.iter()) {
        let kind = match op {
            Op::Value(_) => "value",
            Op::SetValue(..) => "set_value",
            Op::Read(..) => "reg.read",
            Op::Write(..) => "reg.write",
            Op::Execute(_) => "execute",
            Op::IsDone(_) => "is_done",
            Op::PortRead(..) => "port.read",
            Op::PortWrite(..) => "port.write",
            Op::ClearCache => "clear_cache",
            Op::Address(_) => "reg.address",
            Op::IsReadable(_) => "is_readable",
            Op::IsWritable(_) => "is_writable",
        };
        let res = match out {
            Out::Err(e) => format!("err-{e}"),
            Out::Panic => "panic".into(),
            _ => "ok".into(),
        };
        rep.count(&format!("op:{kind}:{res}"));
    }

    // ---- property oracle (implementation vs implementation)
    let mut counts: Vec<&'static str> = vec![];
    let found = oracle(&eff, case, &rc, &ru, &mut counts);
    for c in counts {
        rep.count(c);
    }
    let mut seen_kinds: Vec<String> = vec![];
    for (sig, what) in found {
        let kind = sig["kind"].as_str().unwrap_or("").to_string();
        // minimise the first few failing histories of each kind (delta debugging on the op list)
        let small = if !seen_kinds.contains(&kind) && rep.n_violations < 12 { shrink(case, &kind) } else { None };
        seen_kinds.push(kind);
        match small {
            Some((c2, what2)) => rep.violation(sig, &format!("{what2} [minimised from {} to {} ops]", case.ops.len(), c2.ops.len()), case_to_json(&c2)),
            None => rep.violation(sig, &what, replay.clone()),
        }
    }

    // ---- tie: model vs implementation, both runs, and the Declared predicate
    let p = profile();
    let ac = answer(&rc);
    let au = answer(&ru);
    if rep.evaluations % 97 == 1 {
        rep.sample(json!({"request": format!("c04 default {p} {g} {d} {o}"), "impl": ac, "declared": decl}));
    }
    if modelled {
        rep.expect(format!("c04 default {p} {g} {d} {o}"), ac);
        rep.expect(format!("c04 sink {p} {g} {d} {o}"), au);
    }
    let ports: Vec<String> = eff.iter().enumerate().filter(|(_, n)| matches!(n, NodeSpec::Port)).map(|(i, _)| format!("{i}:{}", port_declared(&eff, i) as u8)).collect();
    rep.expect(format!("c04 decl {p} {g}"), format!("{} {}", decl as u8, ports.join(",")));
    if modelled {
        // the per-history predicate (feature-level declarations) is the Lean `declaredForB`
        rep.expect(format!("c04 declh {p} {g} {o}"), format!("{}", (decl_hist && hist_ok) as u8));
    }
}

/// The property oracle on the implementation's own outputs (cached vs uncached twin).
fn oracle(eff: &[NodeSpec], case: &Case, rc: &RunResult, ru: &RunResult, counts: &mut Vec<&'static str>) -> Vec<(Value, String)> {
    let mut out: Vec<(Value, String)> = vec![];
    let (_, decl) = declared_for_history(eff, &case.ops);
    let hist_ok = case.ops.iter().all(|op| match op {
        Op::PortWrite(pn, ..) => port_declared(eff, *pn),
        _ => true,
    });
    if decl && hist_ok {
        let mut bad: Option<(Value, String)> = None;
        if rc.outs != ru.outs {
            let i = rc.outs.iter().zip(ru.outs.iter()).position(|(a, b)| a != b).unwrap_or(rc.outs.len().min(ru.outs.len()));
            let op = case.ops.get(i).map(op_str).unwrap_or_default();
            let wa = writer_kind(eff, &case.ops, i);
            bad = Some((
                json!({"kind": "result-differs", "cause": wa}),
                format!("op #{i} `{op}`: cached run returned {} but uncached run returned {}", rc.outs.get(i).map_or("-".into(), out_str), ru.outs.get(i).map_or("-".into(), out_str)),
            ));
        } else if rc.mem != ru.mem {
            bad = Some((json!({"kind": "final-image-differs", "cause": writer_kind(eff, &case.ops, case.ops.len())}), format!("final device image differs: cached {} uncached {}", hex(&rc.mem), hex(&ru.mem))));
        } else if !log_sub(&rc.log, &ru.log) {
            bad = Some((json!({"kind": "log-not-sub"}), format!("cached access log is not the uncached log minus successful reads: cached {} uncached {}", log_str(&rc.log), log_str(&ru.log))));
        }
        if let Some((sig, what)) = bad {
            out.push((sig, what));
        }
    }
    // NoCache registers always reach the device; own write visible (cached run alone, any graph)
    for (i, op) in case.ops.iter().enumerate().take(rc.outs.len()) {
        let before = if i == 0 { 0 } else { rc.marks[i - 1] };
        let grown = &rc.log[before..rc.marks[i]];
        let ok = !matches!(rc.outs[i], Out::Err(_) | Out::Panic);
        if let Op::Value(n) | Op::Read(n, _) = op {
            if let NodeSpec::Reg(r) = &eff[*n] {
                if r.mode == Mode::NC && ok {
                    let addr_ok = |a: i64| match r.sel {
                        None => a == r.base,
                        // (without overflow checks selector * offset wraps: no exact multiple then)
                        Some((_, off)) => off == 0 || (a as i128 - r.base as i128) % (off as i128) == 0 || profile() == "release",
                    };
                    let hit = grown.last().map_or(false, |a| !a.write && a.ok && a.len as u64 == r.len && addr_ok(a.addr));
                    if !hit {
                        out.push((json!({"kind": "nocache-served-without-device-read"}), format!("op #{i} `{}` on a NoCache register returned without reading the device", op_str(op))));
                    }
                    counts.push("oracle:nocache-read-checked");
                }
            }
        }
        // own write visible: a successful direct write of a constant-address register (typed
        // set_value or raw IRegister::write) must be what every later value()/read() of that
        // register returns until the next writing operation, whatever was cached before
        let target = match op {
            Op::SetValue(n, _) | Op::Write(n, _) => Some(*n),
            _ => None,
        };
        if let (true, Some(n)) = (ok, target) {
            if let NodeSpec::Reg(r) = &eff[n] {
                let full = |d: &Vec<u8>| d.len() as u64 == r.len;
                let ascii = |d: &[u8]| d.iter().all(|b| *b < 0x80);
                // (expected value(), expected raw bytes)
                let expect: (Option<Out>, Option<Vec<u8>>) = match (op, &r.kind) {
                    (Op::SetValue(_, ValS::Int(v)), Kind::Int { .. } | Kind::Masked { .. }) if int_range(r).map_or(false, |(lo, hi)| (*v as i128) >= lo && (*v as i128) <= hi) => (Some(Out::Int(*v)), None),
                    (Op::SetValue(_, ValS::Str(t)), Kind::Str) if ascii(t) && !t.contains(&0) => (Some(Out::Str(String::from_utf8_lossy(t).to_string())), None),
                    (Op::SetValue(_, ValS::Flt(8, b)), Kind::Float { .. }) if r.len == 8 && !f64::from_bits(*b).is_nan() => (Some(Out::Flt(8, *b, false)), None),
                    (Op::Write(_, d), Kind::Int { be, signed }) if full(d) && matches!(r.len, 1 | 2 | 4 | 8) => {
                        let mut u: u64 = 0;
                        let it: Box<dyn Iterator<Item = &u8>> = if *be { Box::new(d.iter()) } else { Box::new(d.iter().rev()) };
                        for b in it {
                            u = (u << 8) | *b as u64;
                        }
                        let bits = 8 * r.len as u32;
                        let v = if *signed && bits < 64 && (u >> (bits - 1)) & 1 == 1 { (u as i64) - (1i64 << bits) } else { u as i64 };
                        (Some(Out::Int(v)), Some(d.clone()))
                    }
                    (Op::Write(_, d), Kind::Str) if full(d) && ascii(d) => {
                        let end = d.iter().position(|b| *b == 0).unwrap_or(d.len());
                        (Some(Out::Str(String::from_utf8_lossy(&d[..end]).to_string())), Some(d.clone()))
                    }
                    (Op::Write(_, d), _) if full(d) => (None, Some(d.clone())),
                    _ => (None, None),
                };
                if r.sel.is_none() && (expect.0.is_some() || expect.1.is_some()) {
                    for j in i + 1..rc.outs.len() {
                        match &case.ops[j] {
                            Op::SetValue(..) | Op::Write(..) | Op::Execute(_) | Op::PortWrite(..) => break,
                            Op::Value(m) if *m == n => {
                                if let (Some(e), false) = (&expect.0, matches!(rc.outs[j], Out::Err(_) | Out::Panic)) {
                                    counts.push("oracle:own-write-checked");
                                    if &rc.outs[j] != e {
                                        out.push((
                                            json!({"kind": "own-write-hidden", "mode": format!("{:?}", r.mode)}),
                                            format!("op #{i} `{}` succeeded but op #{j} value() returned {} (mode {:?})", op_str(op), out_str(&rc.outs[j]), r.mode),
                                        ));
                                        break;
                                    }
                                }
                            }
                            Op::Read(m, l) if *m == n && *l as u64 == r.len => {
                                if let (Some(e), Out::Bytes(got)) = (&expect.1, &rc.outs[j]) {
                                    counts.push("oracle:own-write-checked");
                                    if got != e {
                                        out.push((
                                            json!({"kind": "own-write-hidden", "mode": format!("{:?}", r.mode)}),
                                            format!("op #{i} `{}` succeeded but op #{j} read() returned {} (mode {:?})", op_str(op), hex(got), r.mode),
                                        ));
                                        break;
                                    }
                                }
                            }
                            _ => {}
                        }
                    }
                }
            }
        }
    }

    out
}

/// Build both contexts, run the history, return the oracle's findings (no reporting).
fn findings_of(case: &Case) -> Vec<(Value, String)> {
    let xml = xml_of(&case.nodes, &case.ctls);
    let built_c = catch(|| GenApiBuilder::<DefaultNodeStore>::default().build(&xml));
    let built_u = catch(|| GenApiBuilder::<DefaultNodeStore>::default().no_cache().build(&xml));
    let ((_, store_c, mut cx_c), (_, store_u, mut cx_u)) = match (built_c, built_u) {
        (Ok(Ok(c)), Ok(Ok(u))) => (c, u),
        _ => return vec![],
    };
    let ids_c: Vec<NodeId> = (0..case.nodes.len()).map(|i| store_c.id_by_name(format!("N{i}")).expect("node present")).collect();
    let ids_u: Vec<NodeId> = (0..case.nodes.len()).map(|i| store_u.id_by_name(format!("N{i}")).expect("node present")).collect();
    let eff = case.nodes.clone();
    let rc = run_hist(&eff, &ids_c, &store_c, &mut cx_c, &case.dev, &case.ops);
    let ru = run_hist(&eff, &ids_u, &store_u, &mut cx_u, &case.dev, &case.ops);
    oracle(&eff, case, &rc, &ru, &mut vec![])
}

/// Delta debugging on the history: drop operations while a finding of the same kind remains.
fn shrink(case: &Case, kind: &str) -> Option<(Case, String)> {
    let mut cur = case.clone();
    let mut what: Option<String> = None;
    let mut progress = true;
    while progress {
        progress = false;
        let mut i = cur.ops.len();
        while i > 0 {
            i -= 1;
            let mut cand = cur.clone();
            cand.ops.remove(i);
            if let Some((_, w)) = findings_of(&cand).into_iter().find(|(s, _)| s["kind"] == kind) {
                cur = cand;
                what = Some(w);
                progress = true;
            }
        }
    }
    what.map(|w| (cur, w))
}

// ---------------------------------------------------------------- shapes stream (implementation vs implementation only)
//
// Register shapes the model does not have: node-valued <pLength> (the LENGTH component of the
// cache key changes), <pAddress>, an embedded <IntSwissKnife> address, <pIndex pOffset=..>,
// and Float / String / Converter / IntConverter / IntSwissKnife features.  Every cachable
// register lists EVERY port as pInvalidator, so every device write (all of them go through
// `PortNode::write`) invalidates every cachable register: the description is declared
// whatever its shape.  Only the cached-vs-uncached oracle applies (no model tie).

#[derive(Clone, Copy, PartialEq, Eq, Debug)]
enum SK {
    Port,
    Int,
    Flt,
    Str,
    Bool,
    Cmd,
    Raw,
}

#[derive(Clone, Debug)]
struct ShapeCase {
    xml: String,
    /// interface kind and "is a register" per node N0..
    kinds: Vec<(SK, bool)>,
    dev: DevSpec,
    ops: Vec<Op>,
}

fn sk_str(k: SK) -> &'static str {
    match k {
        SK::Port => "P",
        SK::Int => "I",
        SK::Flt => "F",
        SK::Str => "S",
        SK::Bool => "B",
        SK::Cmd => "C",
        SK::Raw => "R",
    }
}

fn shape_to_json(c: &ShapeCase) -> Value {
    let kinds: Vec<String> = c.kinds.iter().map(|(k, r)| format!("{}{}", sk_str(*k), *r as u8)).collect();
    json!({"shape": {"xml": c.xml, "kinds": kinds}, "dev": dev_str(&c.dev), "ops": ops_str(&c.ops)})
}

fn shape_from_json(v: &Value) -> ShapeCase {
    let kinds = v["shape"]["kinds"]
        .as_array()
        .unwrap()
        .iter()
        .map(|x| {
            let t = x.as_str().unwrap();
            let k = match &t[..1] {
                "P" => SK::Port,
                "I" => SK::Int,
                "F" => SK::Flt,
                "S" => SK::Str,
                "B" => SK::Bool,
                "C" => SK::Cmd,
                _ => SK::Raw,
            };
            (k, &t[1..] == "1")
        })
        .collect();
    ShapeCase { xml: v["shape"]["xml"].as_str().unwrap().to_string(), kinds, dev: p_dev(v["dev"].as_str().unwrap()), ops: p_list(v["ops"].as_str().unwrap(), ';', p_op) }
}

fn gen_shape_case(rng: &mut Rng, thorough: bool) -> (ShapeCase, Vec<&'static str>) {
    let n_mem = 64usize;
    let mut mem = rng.bytes(n_mem);
    let mut xml = String::from(XML_HEAD);
    let mut kinds: Vec<(SK, bool)> = vec![];
    let mut feats: Vec<&'static str> = vec![];
    let two_ports = rng.chance(1, 3);
    xml += "<Port Name=\"N0\"></Port>\n";
    kinds.push((SK::Port, false));
    if two_ports {
        xml += "<Port Name=\"N1\"></Port>\n";
        kinds.push((SK::Port, false));
    }
    let n_ports = kinds.len();
    let invs: String = (0..n_ports).map(|p| format!("<pInvalidator>N{p}</pInvalidator>")).collect();
    let tail = |rng: &mut Rng| -> String { format!("<AccessMode>RW</AccessMode><pPort>N{}</pPort><Cachable>{}</Cachable>{}", rng.below(n_ports as u64), mode_xml(gen_mode(rng)), invs) };
    // small integer sources: 1-byte unsigned registers holding small values
    let mut srcs: Vec<usize> = vec![];
    for _ in 0..rng.range(2, 4) {
        let a = rng.below(16) as usize;
        mem[a] = *rng.pick(&[0u8, 1, 2, 2, 4, 4, 8, 3]);
        let i = kinds.len();
        xml += &format!("<IntReg Name=\"N{i}\"><Address>{a}</Address><Length>1</Length>{}<Sign>Unsigned</Sign><Endianess>LittleEndian</Endianess></IntReg>\n", tail(rng));
        kinds.push((SK::Int, true));
        srcs.push(i);
    }
    // ... and Integer nodes with an immediate <Value> (value store): changing them is NOT a device
    // write, so nothing is invalidated and one register is cached under several (address, length)
    // keys at the same time — the only way to make the length component of the key observable
    let mut vsrcs: Vec<usize> = vec![];
    for _ in 0..rng.range(1, 2) {
        let i = kinds.len();
        xml += &format!("<Integer Name=\"N{i}\"><Value>{}</Value></Integer>\n", rng.pick(&[1i64, 2, 2, 4, 4, 8]));
        kinds.push((SK::Int, false));
        srcs.push(i);
        vsrcs.push(i);
        feats.push("shape:value-store-source");
    }
    // shaped registers
    let mut sk_count = 0;
    for _ in 0..rng.range(2, 5) {
        let i = kinds.len();
        let mut addr = String::new();
        let base = 16 + rng.below(24);
        match rng.below(6) {
            0 => addr += &format!("<Address>{base}</Address>"),
            1 => {
                feats.push("shape:pAddress");
                addr += &format!("<Address>{base}</Address><pAddress>N{}</pAddress>", rng.pick(&srcs));
            }
            2 => {
                feats.push("shape:IntSwissKnife-address");
                sk_count += 1;
                addr += &format!("<IntSwissKnife Name=\"SK{sk_count}\"><pVariable Name=\"X\">N{}</pVariable><Formula>X * {} + {base}</Formula></IntSwissKnife>", rng.pick(&srcs), rng.range(1, 4));
            }
            3 => {
                feats.push("shape:pIndex-pOffset");
                addr += &format!("<Address>{base}</Address><pIndex pOffset=\"N{}\">N{}</pIndex>", rng.pick(&srcs), rng.pick(&srcs));
            }
            4 => {
                feats.push("shape:pIndex-Offset");
                addr += &format!("<Address>{base}</Address><pIndex Offset=\"{}\">N{}</pIndex>", rng.range(1, 4), rng.pick(&srcs));
            }
            _ => {
                feats.push("shape:pIndex-no-offset");
                addr += &format!("<Address>{base}</Address><pIndex>N{}</pIndex>", rng.pick(&srcs));
            }
        }
        let plen = rng.chance(1, 2);
        let len = if plen {
            feats.push("shape:pLength");
            format!("<pLength>N{}</pLength>", if rng.chance(7, 10) { rng.pick(&vsrcs) } else { rng.pick(&srcs) })
        } else {
            format!("<Length>{}</Length>", rng.pick(&[1u64, 2, 4, 4, 8]))
        };
        let (tag, extra, k) = match rng.below(6) {
            0 | 1 => ("IntReg", format!("{}{}", sign_xml(rng.bool()), endian_xml(rng.bool())), SK::Int),
            2 => ("MaskedIntReg", format!("<LSB>0</LSB><MSB>{}</MSB>{}<Endianess>LittleEndian</Endianess>", rng.range(0, 6), sign_xml(false)), SK::Int),
            3 => ("FloatReg", endian_xml(rng.bool()).to_string(), SK::Flt),
            4 => ("StringReg", String::new(), SK::Str),
            _ => ("Register", String::new(), SK::Raw),
        };
        xml += &format!("<{tag} Name=\"N{i}\">{addr}{len}{}{extra}</{tag}>\n", tail(rng));
        kinds.push((k, true));
    }
    // features over what exists
    for _ in 0..rng.range(1, 5) {
        let i = kinds.len();
        // write targets exclude the length / address sources: a length of 10^17 read back from a
        // wide register aborts the process in `vec![0; length]` (allocation failure, not a panic)
        let ints_all: Vec<usize> = (0..kinds.len()).filter(|j| kinds[*j].0 == SK::Int).collect();
        let ints: Vec<usize> = ints_all.iter().copied().filter(|j| !vsrcs.contains(j)).collect();
        let flts: Vec<usize> = (0..kinds.len()).filter(|j| kinds[*j].0 == SK::Flt).collect();
        let strs: Vec<usize> = (0..kinds.len()).filter(|j| kinds[*j].0 == SK::Str).collect();
        match rng.below(8) {
            0 => {
                feats.push("shape:Converter");
                let tgt = if !flts.is_empty() && rng.bool() { *rng.pick(&flts) } else { *rng.pick(&ints) };
                xml += &format!("<Converter Name=\"N{i}\"><FormulaTo>FROM * 2</FormulaTo><FormulaFrom>TO / 2</FormulaFrom><pValue>N{tgt}</pValue></Converter>\n");
                kinds.push((SK::Flt, false));
            }
            1 => {
                feats.push("shape:IntConverter");
                xml += &format!("<IntConverter Name=\"N{i}\"><pVariable Name=\"V\">N{}</pVariable><FormulaTo>FROM + V</FormulaTo><FormulaFrom>TO - V</FormulaFrom><pValue>N{}</pValue></IntConverter>\n", rng.pick(&ints_all), rng.pick(&ints));
                kinds.push((SK::Int, false));
            }
            2 => {
                feats.push("shape:Float-feature");
                let tgt = if !flts.is_empty() && rng.chance(2, 3) { *rng.pick(&flts) } else { *rng.pick(&ints) };
                xml += &format!("<Float Name=\"N{i}\"><pValue>N{tgt}</pValue></Float>\n");
                kinds.push((SK::Flt, false));
            }
            3 if !strs.is_empty() => {
                feats.push("shape:String-feature");
                xml += &format!("<String Name=\"N{i}\"><pValue>N{}</pValue></String>\n", rng.pick(&strs));
                kinds.push((SK::Str, false));
            }
            4 => {
                feats.push("shape:IntSwissKnife-feature");
                xml += &format!("<IntSwissKnife Name=\"N{i}\"><pVariable Name=\"A\">N{}</pVariable><pVariable Name=\"B\">N{}</pVariable><Formula>A + B * 2</Formula></IntSwissKnife>\n", rng.pick(&ints_all), rng.pick(&ints_all));
                kinds.push((SK::Int, false));
            }
            5 => {
                xml += &format!("<Boolean Name=\"N{i}\"><pValue>N{}</pValue></Boolean>\n", rng.pick(&ints));
                kinds.push((SK::Bool, false));
            }
            6 => {
                xml += &format!("<Command Name=\"N{i}\"><pValue>N{}</pValue><CommandValue>{}</CommandValue></Command>\n", rng.pick(&ints), rng.pick(&[1i64, 2, 4, 8]));
                kinds.push((SK::Cmd, false));
            }
            _ => {
                xml += &format!("<Integer Name=\"N{i}\"><pValue>N{}</pValue></Integer>\n", rng.pick(&ints));
                kinds.push((SK::Int, false));
            }
        }
    }
    xml += "</RegisterDescription>\n";
    let mut dev = DevSpec { mem, no_access: vec![], no_write: vec![], rej_w: vec![], rej_p: vec![] };
    if rng.chance(1, 5) {
        dev.rej_w.push(rng.below(10));
    }
    if rng.chance(1, 5) {
        let jl = rng.below(3) as usize;
        dev.rej_p.push((rng.below(10), rng.range(0, 3) as usize, rng.bytes(jl)));
    }
    let n = kinds.len();
    let n_ops = rng.range(8, if thorough { 60 } else { 36 }) as usize;
    let regs: Vec<usize> = (0..n).filter(|j| kinds[*j].1).collect();
    let mut ops = vec![];
    while ops.len() < n_ops {
        let j = rng.below(n as u64) as usize;
        let (k, is_reg) = kinds[j];
        match rng.below(20) {
            0..=6 if k != SK::Port && k != SK::Cmd && k != SK::Raw => ops.push(Op::Value(j)),
            7..=10 => match k {
                // keep the length / address sources small so buffers stay small and addresses near the image
                SK::Int => ops.push(Op::SetValue(j, ValS::Int(if srcs.contains(&j) || rng.bool() { *rng.pick(&[0i64, 1, 2, 2, 4, 4, 8, 3]) } else { rng.below(200) as i64 }))),
                SK::Flt => ops.push(Op::SetValue(j, ValS::Flt(8, ((rng.below(40) as f64) / 2.0).to_bits()))),
                SK::Str => {
                    let l = rng.below(5) as usize;
                    ops.push(Op::SetValue(j, ValS::Str((0..l).map(|_| rng.range(0x41, 0x5a) as u8).collect())))
                }
                SK::Bool => ops.push(Op::SetValue(j, ValS::Bool(rng.bool()))),
                SK::Cmd => ops.push(Op::Execute(j)),
                _ => {}
            },
            11..=13 if is_reg => ops.push(Op::Read(j, *rng.pick(&[1usize, 2, 2, 4, 4, 8, 3]))),
            14..=15 if is_reg => {
                let l = *rng.pick(&[1usize, 2, 2, 4, 4, 8]);
                ops.push(Op::Write(j, rng.bytes(l)))
            }
            16 if is_reg => ops.push(Op::Address(j)),
            16 if k == SK::Cmd => ops.push(Op::IsDone(j)),
            17 | 18 => {
                // the length-key shape: read, change a source (length / address / offset), read again, change back, read
                let r = *rng.pick(&regs);
                let s0 = if rng.chance(7, 10) { *rng.pick(&vsrcs) } else { *rng.pick(&srcs) };
                let rd = |rng: &mut Rng, l: i64| if kinds[r].0 != SK::Raw && rng.chance(3, 4) { Op::Value(r) } else { Op::Read(r, l as usize) };
                let (v1, v2) = (*rng.pick(&[1i64, 2, 4, 8]), *rng.pick(&[1i64, 2, 4, 8]));
                ops.push(Op::SetValue(s0, ValS::Int(v1)));
                ops.push(rd(rng, v1));
                ops.push(Op::SetValue(s0, ValS::Int(v2)));
                ops.push(rd(rng, v2));
                ops.push(rd(rng, v2));
                if rng.bool() {
                    ops.push(Op::SetValue(s0, ValS::Int(v1)));
                    ops.push(rd(rng, v1));
                }
            }
            0..=6 => ops.push(if rng.chance(1, 3) { Op::ClearCache } else if rng.bool() { Op::IsReadable(j) } else { Op::IsWritable(j) }),
            19 => {
                let pn = rng.below(n_ports as u64) as usize;
                if rng.bool() {
                    ops.push(Op::PortRead(pn, rng.below(n_mem as u64) as i64, rng.range(1, 4) as usize))
                } else {
                    let l = rng.range(1, 3) as usize;
                    ops.push(Op::PortWrite(pn, rng.below(n_mem as u64) as i64, rng.bytes(l)))
                }
            }
            _ => {}
        }
    }
    feats.sort();
    feats.dedup();
    (ShapeCase { xml, kinds, dev, ops }, feats)
}

/// both builds, same history; returns the oracle's findings and the two runs
fn shape_findings(case: &ShapeCase) -> Option<(Vec<(Value, String)>, RunResult, RunResult)> {
    let built_c = catch(|| GenApiBuilder::<DefaultNodeStore>::default().build(&case.xml));
    let built_u = catch(|| GenApiBuilder::<DefaultNodeStore>::default().no_cache().build(&case.xml));
    let ((_, store_c, mut cx_c), (_, store_u, mut cx_u)) = match (built_c, built_u) {
        (Ok(Ok(c)), Ok(Ok(u))) => (c, u),
        _ => return None,
    };
    let n = case.kinds.len();
    let ids_c: Vec<NodeId> = (0..n).map(|i| store_c.id_by_name(format!("N{i}")).expect("node present")).collect();
    let ids_u: Vec<NodeId> = (0..n).map(|i| store_u.id_by_name(format!("N{i}")).expect("node present")).collect();
    let dummy = vec![NodeSpec::Port; n];
    let rc = run_hist(&dummy, &ids_c, &store_c, &mut cx_c, &case.dev, &case.ops);
    let ru = run_hist(&dummy, &ids_u, &store_u, &mut cx_u, &case.dev, &case.ops);
    let mut out = vec![];
    if rc.outs != ru.outs {
        let i = rc.outs.iter().zip(ru.outs.iter()).position(|(a, b)| a != b).unwrap_or(rc.outs.len().min(ru.outs.len()));
        out.push((
            json!({"kind": "shape-result-differs"}),
            format!("op #{i} `{}`: cached run returned {} but uncached run returned {}", case.ops.get(i).map(op_str).unwrap_or_default(), rc.outs.get(i).map_or("-".into(), out_str), ru.outs.get(i).map_or("-".into(), out_str)),
        ));
    } else if rc.mem != ru.mem {
        out.push((json!({"kind": "shape-final-image-differs"}), format!("final device image differs: cached {} uncached {}", hex(&rc.mem), hex(&ru.mem))));
    } else if !log_sub(&rc.log, &ru.log) {
        out.push((json!({"kind": "shape-log-not-sub"}), format!("cached access log is not the uncached log minus successful reads: cached {} uncached {}", log_str(&rc.log), log_str(&ru.log))));
    }
    Some((out, rc, ru))
}

fn do_shape_case(rep: &mut Report, case: &ShapeCase, feats: &[&'static str], src: &str) {
    let replay = shape_to_json(case);
    let (found, rc, ru) = match shape_findings(case) {
        Some(x) => x,
        None => {
            rep.count("build:failed");
            rep.violation(json!({"kind": "harness-xml-rejected"}), "generated shapes XML was rejected by the real builder", replay);
            return;
        }
    };
    let canon = format!("{} {} {}", case.xml, dev_str(&case.dev), ops_str(&case.ops));
    let nontrivial = rc.outs.iter().filter(|x| !matches!(x, Out::Err(_) | Out::Panic)).count() >= 3 && rc.log.iter().any(|a| a.write && a.ok);
    rep.case(&canon, nontrivial);
    rep.count(&format!("case/{src}"));
    rep.count("oracle:shapes(every cachable register lists every port)");
    rep.count("tie:skipped(shapes are not in the model)");
    for f in feats {
        rep.count(f);
    }
    if rc.log.len() < ru.log.len() {
        rep.count("shape:cache-served-a-read");
    }
    // the same register cached under two different lengths at the same time is what makes the length key observable
    {
        let mut lens: std::collections::BTreeMap<i64, Vec<usize>> = Default::default();
        for a in rc.log.iter().filter(|a| !a.write && a.ok) {
            let e = lens.entry(a.addr).or_default();
            if !e.contains(&a.len) {
                e.push(a.len);
            }
        }
        if lens.values().any(|v| v.len() > 1) {
            rep.count("shape:same-address-read-with-two-lengths");
        }
    }
    for (op, out) in case.ops.iter().zip(rc.outs.iter()) {
        let res = match out {
            Out::Err(e) => format!("err-{e}"),
            Out::Panic => "panic".into(),
            _ => "ok".into(),
        };
        rep.count(&format!("shape-op:{}:{res}", op_str(op).split('/').next().unwrap_or("")));
    }
    for (sig, what) in found {
        // minimise the history
        let kind = sig["kind"].as_str().unwrap_or("").to_string();
        let mut cur = case.clone();
        let mut w2 = what.clone();
        if rep.n_violations < 12 {
            let mut progress = true;
            while progress {
                progress = false;
                let mut i = cur.ops.len();
                while i > 0 {
                    i -= 1;
                    let mut cand = cur.clone();
                    cand.ops.remove(i);
                    if let Some((f, _, _)) = shape_findings(&cand) {
                        if let Some((_, w)) = f.into_iter().find(|(s, _)| s["kind"] == kind.as_str()) {
                            cur = cand;
                            w2 = w;
                            progress = true;
                        }
                    }
                }
            }
        }
        rep.violation(sig, &format!("{w2} [{} -> {} ops]", case.ops.len(), cur.ops.len()), shape_to_json(&cur));
    }
}

// ---------------------------------------------------------------- dyn-key stream (tied to `Model.CacheDyn`)
//
// Registers whose cache key varies: `<pLength>` and / or `<pAddress>` name value-store Integer
// nodes (`<Integer><Value>`), so changing the key touches neither the device nor the cache and
// the harness knows the key `(address, length)` of every access.  The real code runs the history
// through the node API (both builds); the model runs the same accesses as primitive steps at the
// explicit keys (`c04 dyn …`); results, final image and full access log are compared.  Oracle:
// when every cachable register lists every OTHER register of the description or its port
// (`allListedB`; a register need not list itself since the repair of F-C04-4) the two builds
// must agree.

struct DynReg {
    base: i64,
    asrc: Option<usize>,
    lsrc: Option<usize>,
    len: usize,
    mode: Mode,
    invs: Vec<usize>,
    port: usize,
    be: bool,
    signed: bool,
}

fn do_dyn_case(rep: &mut Report, rng: &mut Rng, thorough: bool) {
    let n_mem = 48usize;
    let n_ports = if rng.chance(1, 4) { 2 } else { 1 };
    let n_src = rng.range(1, 3) as usize;
    let n_reg = rng.range(1, 3) as usize;
    let src0 = n_ports;
    let reg0 = n_ports + n_src;
    let n = reg0 + n_reg;
    let lens = [1i64, 2, 2, 4, 4, 8, 3];
    // each source is used either as a length or as an address offset
    let is_len: Vec<bool> = (0..n_src).map(|i| if i == 0 { true } else { rng.bool() }).collect();
    let mut cur: Vec<i64> = (0..n_src).map(|i| if is_len[i] { *rng.pick(&lens) } else { rng.below(5) as i64 }).collect();
    let all_listed_wanted = rng.chance(2, 5);
    let mut regs: Vec<DynReg> = vec![];
    for i in 0..n_reg {
        let id = reg0 + i;
        let lsrcs: Vec<usize> = (0..n_src).filter(|j| is_len[*j]).collect();
        let asrcs: Vec<usize> = (0..n_src).filter(|j| !is_len[*j]).collect();
        let lsrc = if rng.chance(2, 3) { Some(*rng.pick(&lsrcs)) } else { None };
        let asrc = if !asrcs.is_empty() && rng.chance(1, 2) { Some(*rng.pick(&asrcs)) } else { None };
        let port = rng.below(n_ports as u64) as usize;
        let mut invs: Vec<usize> = vec![];
        if all_listed_wanted {
            if rng.bool() {
                invs.extend(0..n_ports);
            } else {
                invs.extend(reg0..reg0 + n_reg);
            }
        } else {
            for c in (0..n_ports).chain(reg0..reg0 + n_reg) {
                if rng.chance(1, 3) {
                    invs.push(c);
                }
            }
        }
        let _ = id;
        let span = if rng.chance(1, 10) { 44 } else { 12 };
        regs.push(DynReg { base: 8 + rng.below(span) as i64, asrc, lsrc, len: *rng.pick(&[1usize, 2, 4, 4, 8]), mode: gen_mode(rng), invs, port, be: rng.bool(), signed: rng.bool() });
    }
    // XML
    let mut xml = String::from(XML_HEAD);
    for p in 0..n_ports {
        xml += &format!("<Port Name=\"N{p}\"></Port>\n");
    }
    for i in 0..n_src {
        xml += &format!("<Integer Name=\"N{}\"><Value>{}</Value></Integer>\n", src0 + i, cur[i]);
    }
    for (i, r) in regs.iter().enumerate() {
        let addr = match r.asrc {
            Some(a) => format!("<Address>{}</Address><pAddress>N{}</pAddress>", r.base, src0 + a),
            None => format!("<Address>{}</Address>", r.base),
        };
        let len = match r.lsrc {
            Some(l) => format!("<pLength>N{}</pLength>", src0 + l),
            None => format!("<Length>{}</Length>", r.len),
        };
        let invs: String = r.invs.iter().map(|j| format!("<pInvalidator>N{j}</pInvalidator>")).collect();
        xml += &format!("<IntReg Name=\"N{}\">{addr}{len}<AccessMode>RW</AccessMode><pPort>N{}</pPort><Cachable>{}</Cachable>{invs}{}{}</IntReg>\n", reg0 + i, r.port, mode_xml(r.mode), sign_xml(r.signed), endian_xml(r.be));
    }
    xml += "</RegisterDescription>\n";
    // model graph (value-store nodes are never evaluated by the steps: any non-register node does)
    let mut gnodes: Vec<String> = vec![];
    for _ in 0..n_ports {
        gnodes.push("P".into());
    }
    for _ in 0..n_src {
        gnodes.push("G/0/-".into());
    }
    for r in &regs {
        let invs = if r.invs.is_empty() { "-".to_string() } else { r.invs.iter().map(|j| j.to_string()).collect::<Vec<_>>().join(",") };
        gnodes.push(format!("R/I{}{}/{}/-/{}/{}/RW/{}/{}", if r.be { 'b' } else { 'l' }, if r.signed { 's' } else { 'u' }, r.base, r.len, match r.mode {
            Mode::WT => "WT",
            Mode::WA => "WA",
            Mode::NC => "NC",
        }, invs, r.port));
    }
    let g = gnodes.join(";");
    let all_listed = regs.iter().enumerate().all(|(ti, t)| t.mode == Mode::NC || regs.iter().enumerate().all(|(wi, w)| wi == ti || t.invs.contains(&(reg0 + wi)) || t.invs.contains(&w.port)));
    // device
    let mut dev = DevSpec { mem: rng.bytes(n_mem), no_access: vec![], no_write: vec![], rej_w: vec![], rej_p: vec![] };
    if rng.chance(1, 5) {
        dev.rej_w.push(rng.below(6));
    }
    if rng.chance(1, 5) {
        let jl = rng.below(3) as usize;
        dev.rej_p.push((rng.below(6), rng.range(0, 9) as usize, rng.bytes(jl)));
    }
    if rng.chance(1, 8) {
        dev.no_write.push((rng.below(n_mem as u64) as i64, rng.range(1, 3)));
    }
    // history
    let key = |regs: &Vec<DynReg>, cur: &Vec<i64>, i: usize| -> (i64, usize) {
        let r = &regs[i];
        (r.base + r.asrc.map_or(0, |a| cur[a]), r.lsrc.map_or(r.len as i64, |l| cur[l]) as usize)
    };
    let mut ops: Vec<Op> = vec![];
    let mut steps: Vec<String> = vec![];
    let n_ops = rng.range(6, if thorough { 40 } else { 24 }) as usize;
    while ops.len() < n_ops {
        let i = rng.below(n_reg as u64) as usize;
        let (a, l) = key(&regs, &cur, i);
        match rng.below(20) {
            0..=5 => {
                let j = rng.below(n_src as u64) as usize;
                cur[j] = if is_len[j] { *rng.pick(&lens) } else { rng.below(5) as i64 };
                ops.push(Op::SetValue(src0 + j, ValS::Int(cur[j])));
                steps.push("u".into());
            }
            6..=12 => {
                ops.push(Op::Value(reg0 + i));
                steps.push(format!("V/{}/{a}/{l}", reg0 + i));
            }
            13..=15 => {
                let d = rng.bytes(l);
                steps.push(format!("W/{}/{a}/{}", reg0 + i, hex(&d)));
                ops.push(Op::Write(reg0 + i, d));
            }
            16..=17 => {
                ops.push(Op::Read(reg0 + i, l));
                steps.push(format!("R/{}/{a}/{l}", reg0 + i));
            }
            18 => {
                ops.push(Op::ClearCache);
                steps.push("cc".into());
            }
            _ => {
                // directed: read, move the key, write, move back, read
                let srcs_of: Vec<usize> = regs[i].lsrc.into_iter().chain(regs[i].asrc.into_iter()).collect();
                if srcs_of.is_empty() {
                    continue;
                }
                let j = *rng.pick(&srcs_of);
                let old = cur[j];
                ops.push(Op::Value(reg0 + i));
                steps.push(format!("V/{}/{a}/{l}", reg0 + i));
                cur[j] = if is_len[j] { *rng.pick(&[1i64, 2, 4, 8]) } else { rng.below(5) as i64 };
                ops.push(Op::SetValue(src0 + j, ValS::Int(cur[j])));
                steps.push("u".into());
                let (a2, l2) = key(&regs, &cur, i);
                let d = rng.bytes(l2);
                steps.push(format!("W/{}/{a2}/{}", reg0 + i, hex(&d)));
                ops.push(Op::Write(reg0 + i, d));
                cur[j] = old;
                ops.push(Op::SetValue(src0 + j, ValS::Int(old)));
                steps.push("u".into());
                ops.push(Op::Value(reg0 + i));
                steps.push(format!("V/{}/{a}/{l}", reg0 + i));
            }
        }
    }
    let mut kinds: Vec<(SK, bool)> = vec![];
    for _ in 0..n_ports {
        kinds.push((SK::Port, false));
    }
    for _ in 0..n_src {
        kinds.push((SK::Int, false));
    }
    for _ in 0..n_reg {
        kinds.push((SK::Int, true));
    }
    let _ = n;
    let case = ShapeCase { xml, kinds, dev, ops };
    let replay = shape_to_json(&case);
    let (found, rc, ru) = match shape_findings(&case) {
        Some(x) => x,
        None => {
            rep.count("build:failed");
            rep.violation(json!({"kind": "harness-xml-rejected"}), "generated dyn-key XML was rejected by the real builder", replay);
            return;
        }
    };
    let d = dev_str(&case.dev);
    let st = steps.join(";");
    let canon = format!("dyn {g} {d} {st}");
    let nontrivial = rc.outs.iter().filter(|x| !matches!(x, Out::Err(_) | Out::Panic)).count() >= 3 && rc.log.iter().any(|a| a.write && a.ok);
    rep.case(&canon, nontrivial);
    rep.count("case/dyn-key-stream");
    rep.count(if all_listed { "class/dyn-key-stream: all-listed (oracle applies)" } else { "class/dyn-key-stream: not all-listed" });
    if regs.iter().any(|r| r.lsrc.is_some()) {
        rep.count("dyn:pLength");
    }
    if regs.iter().any(|r| r.asrc.is_some()) {
        rep.count("dyn:pAddress");
    }
    if rc.log.len() < ru.log.len() {
        rep.count("dyn:cache-served-a-read");
    }
    // tie: both builds against the model's primitive steps, and the predicate
    rep.expect(format!("c04 dyn default {g} {d} {st}"), answer(&rc));
    rep.expect(format!("c04 dyn sink {g} {d} {st}"), answer(&ru));
    rep.expect(format!("c04 all {g}"), format!("{}", all_listed as u8));
    if found.is_empty() {
        rep.count("dyn:builds-agree");
    } else if all_listed {
        for (sig, what) in found {
            let kind = format!("dyn-{}", sig["kind"].as_str().unwrap_or(""));
            rep.violation(json!({"kind": kind}), &format!("all-listed dyn-key description: {what}"), replay.clone());
        }
    } else {
        rep.count("dyn:builds-differ(not all-listed)");
    }
}

// ---------------------------------------------------------------- directed probe: own write hidden under another key (F-C04-4, fixed in f43c726)
//
// A WriteThrough register whose cache key varies (node-valued <pLength>; <pAddress>) and that
// lists nobody as pInvalidator: read at key 1, move to key 2, write, move back, read.  No other
// register is involved, so there is nothing to declare: both builds must agree.  Before the
// repair the cached build returned the entry cached under the old key (own write hidden).  The
// model states the same history at the primitive level (`Props/C04.lean`, `exDynKey`, `exGraphK`).
// The probe runs in every harness run and reports a regression as a violation.
const REPORT_F_C04_4: bool = true;

fn self_key_case(shape: &str, self_inv: Option<&str>) -> ShapeCase {
    let inv = self_inv.map_or(String::new(), |n| format!("<pInvalidator>{n}</pInvalidator>"));
    let mut xml = String::from(XML_HEAD);
    xml += "<Port Name=\"N0\"></Port>\n";
    xml += "<IntReg Name=\"N1\"><Address>0</Address><Length>1</Length><AccessMode>RW</AccessMode><pPort>N0</pPort><Cachable>NoCache</Cachable><Sign>Unsigned</Sign><Endianess>LittleEndian</Endianess></IntReg>\n";
    let mut mem = vec![0u8; 16];
    let ops;
    if shape == "pLength" {
        // length 4 -> 2 -> 4 at address 8
        xml += &format!("<IntReg Name=\"N2\"><Address>8</Address><pLength>N1</pLength><AccessMode>RW</AccessMode><pPort>N0</pPort><Cachable>WriteThrough</Cachable>{inv}<Sign>Unsigned</Sign><Endianess>LittleEndian</Endianess></IntReg>\n");
        mem[0] = 4;
        mem[8..12].copy_from_slice(&[0x11; 4]);
        ops = "v/2;s/1/i2;s/2/i8738;s/1/i4;v/2";
    } else {
        // address 8 -> 9 -> 8, length 2: the write at 9 changes the second byte of the entry cached at 8
        xml += &format!("<IntReg Name=\"N2\"><Address>8</Address><pAddress>N1</pAddress><Length>2</Length><AccessMode>RW</AccessMode><pPort>N0</pPort><Cachable>WriteThrough</Cachable>{inv}<Sign>Unsigned</Sign><Endianess>LittleEndian</Endianess></IntReg>\n");
        mem[0] = 0;
        mem[8..11].copy_from_slice(&[0x11; 3]);
        ops = "v/2;s/1/i1;s/2/i8738;s/1/i0;v/2";
    }
    xml += "</RegisterDescription>\n";
    ShapeCase {
        xml,
        kinds: vec![(SK::Port, false), (SK::Int, true), (SK::Int, true)],
        dev: DevSpec { mem, no_access: vec![], no_write: vec![], rej_w: vec![], rej_p: vec![] },
        ops: p_list(ops, ';', p_op),
    }
}

fn self_key_probe(rep: &mut Report) {
    for shape in ["pLength", "pAddress"] {
        // declared variants: the register lists itself / its port -> both builds must agree
        for inv in ["N2", "N0"] {
            let case = self_key_case(shape, Some(inv));
            match shape_findings(&case) {
                Some((found, _, _)) => {
                    rep.count(&format!("probe:self-key:{shape}:declared({inv})"));
                    for (sig, what) in found {
                        rep.violation(sig, &format!("self-key probe ({shape}, lists {inv}): {what}"), shape_to_json(&case));
                    }
                }
                None => rep.violation(json!({"kind": "harness-xml-rejected"}), "self-key probe XML was rejected by the real builder", shape_to_json(&case)),
            }
        }
        // no declaration at all
        let case = self_key_case(shape, None);
        match shape_findings(&case) {
            Some((found, _, _)) => {
                if found.is_empty() {
                    rep.count(&format!("probe:own-write-hidden-under-other-key:not-observed:{shape}"));
                } else {
                    rep.count("probe:own-write-hidden-under-other-key:observed");
                    rep.count(&format!("probe:own-write-hidden-under-other-key:observed:{shape}"));
                    if REPORT_F_C04_4 {
                        for (_, what) in found {
                            rep.violation(json!({"kind": "own-write-hidden-under-other-key", "shape": shape}), &format!("a register's own write is hidden by an entry it cached under another (address, length) key: {what}"), shape_to_json(&case));
                        }
                    }
                }
            }
            None => rep.violation(json!({"kind": "harness-xml-rejected"}), "self-key probe XML was rejected by the real builder", shape_to_json(&case)),
        }
    }
}

/// coarse cause class for a differing result (part of the violation signature)
fn writer_kind(nodes: &[NodeSpec], ops: &[Op], upto: usize) -> &'static str {
    let mut raw = false;
    let mut wa = false;
    for op in ops.iter().take(upto) {
        match op {
            Op::Write(..) => raw = true,
            Op::SetValue(n, _) | Op::Execute(n) => {
                if let Some(r) = resolve(nodes, match &nodes[*n] {
                    NodeSpec::Command(pv, _) => *pv,
                    _ => *n,
                }) {
                    wa |= r.mode == Mode::WA;
                }
            }
            _ => {}
        }
    }
    for op in ops.iter().take(upto) {
        if let Op::Write(n, _) = op {
            if let NodeSpec::Reg(r) = &nodes[*n] {
                wa |= r.mode == Mode::WA;
            }
        }
    }
    match (raw, wa) {
        (true, true) => "raw-write+write-around",
        (true, false) => "raw-write",
        (false, true) => "write-around",
        _ => "other",
    }
}

fn main() {
    let args = parse_args();
    let mut rep = Report::new(
        "C04",
        "random register graphs (overlapping / selector-addressed / StructReg-entry registers, all Cachable modes, StructReg groups of 1..3 StructEntry children with Cachable / AccessMode / pInvalidator declared at struct level, entry level, both (different values) or neither — the abstract description follows the XML semantics, not the parsed node; one or two ports, Integer (pValue, pValueCopy) / Boolean / Enumeration / Command features) x random device images and rejection scripts (static ranges, rejected write ordinals, non-atomic rejections) x random histories; each case runs the real code with DefaultCacheStore and with CacheSink. `evaluations` counts ALL cases; the model tie (both runs + Declared + the per-history DeclaredFor) covers the declared / undeclared / via-feature / controller streams (90% of the cases; controllers pIsImplemented / pIsAvailable / pIsLocked and is_readable / is_writable queries are in the model); the shapes stream (10%: pLength, pAddress, IntSwissKnife address, pIndex pOffset, Float / String / Converter / IntConverter / IntSwissKnife features, value-store sources) is implementation-vs-implementation only (see the tie:skipped counter). A case is non-trivial when at least 3 operations succeed and at least one device write succeeds; distinct by (effective graph or XML, device script, history)",
    );

    if let Some(path) = &args.replay {
        let v: Value = serde_json::from_str(&std::fs::read_to_string(path).unwrap()).unwrap();
        if v["replay"]["shape"].is_object() {
            do_shape_case(&mut rep, &shape_from_json(&v["replay"]), &[], "replay");
        } else {
            let case = case_from_json(&v["replay"]);
            do_case(&mut rep, &case, "replay", v["replay"].clone());
        }
        rep.write(&args);
        return;
    }

    // corpus first
    if let Ok(rd) = std::fs::read_dir("/verif/corpus/C04") {
        let mut files: Vec<_> = rd.filter_map(|e| e.ok()).map(|e| e.path()).filter(|p| p.extension().map_or(false, |x| x == "json")).collect();
        files.sort();
        for f in files {
            if let Ok(v) = serde_json::from_str::<Value>(&std::fs::read_to_string(&f).unwrap_or_default()) {
                if v["replay"]["shape"].is_object() {
                    do_shape_case(&mut rep, &shape_from_json(&v["replay"]), &[], "corpus");
                } else {
                    let case = case_from_json(&v["replay"]);
                    do_case(&mut rep, &case, "corpus", v["replay"].clone());
                }
            }
        }
    }

    self_key_probe(&mut rep);

    let mut rng = Rng::new(args.seed);
    let n_cases = if args.thorough() { 30_000 } else { 3_000 };
    for i in 0..n_cases {
        if i % 20 == 13 {
            do_dyn_case(&mut rep, &mut rng, args.thorough());
            continue;
        }
        if i % 10 == 8 {
            let (case, feats) = gen_shape_case(&mut rng, args.thorough());
            do_shape_case(&mut rep, &case, &feats, "shapes-stream");
            continue;
        }
        let stream = match i % 10 {
            4 | 9 => Stream::Undeclared,
            2 | 7 => Stream::Via,
            5 => Stream::Ctl,
            _ => Stream::Declared,
        };
        let case = gen_case(&mut rng, stream, args.thorough());
        let replay = case_to_json(&case);
        let src = match stream {
            Stream::Declared => "declared-stream",
            Stream::Undeclared => "undeclared-stream",
            Stream::Via => "via-feature-stream",
            Stream::Ctl => "controller-stream",
        };
        do_case(&mut rep, &case, src, replay);
        if i % 2000 == 1999 {
            rep.flush_model(&args.camdrv);
        }
    }
    rep.write(&args);
}
