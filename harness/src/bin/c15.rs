//! C15 — `ControlHandle::enable_streaming` / `disable_streaming` and
//! `StreamParams::from_control` over a scripted in-memory U3V device.
//! The real calls vs the Lean models — `CamVerif.Model.Streaming` (one command per register,
//! request `c15 run`), `CamVerif.Model.StreamingLimits` (negotiated maximum command / acknowledge
//! lengths: reads and writes refused or cut into several commands, re-open of a handle with warm
//! caches under other limits; `c15 runl`) and `CamVerif.Model.StreamingPublish` (a device that
//! publishes new required sizes when the stream gets disabled; `c15 runp`): command order,
//! results and the final device image are diffed; the property oracle (coverage, alignment, disable-first,
//! enable-last, read-back, failure atomicity) is evaluated on the implementation's own effects.

mod c14c15_common;

use c14c15_common::*;
use camharness::*;
use cameleon::u3v::StreamParams;
use cameleon::DeviceControl;

const SI_CONTROL: u64 = 0x04;

#[derive(Clone, Debug)]
struct Case {
    sbrm_addr: u64,
    sirm_addr: u64,
    u3vcp_cap: u64,
    max_cmd: u32,
    max_ack: u32,
    si_info: u32,
    si_control: u32,
    req_payload: u64,
    req_leader: u32,
    req_trailer: u32,
    /// initial content of MAXIMUM_LEADER_SIZE .. MAXIMUM_TRAILER_SIZE (0x18..0x30)
    garbage: [u32; 6],
    response_ms: u32,
    sirm_len: usize,
    /// ops: `e` enable_streaming, `d` disable_streaming, `s` sbrm(), `p` StreamParams::from_control,
    /// `l` start + stop of the real receive loop on the case's one StreamHandle (reports
    /// `StreamHandle::params()` and the transfers of the first frame), `M` the device changes
    /// registers on its own (next entry of `pokes`), `L` the handle is closed, the device
    /// advertises other maximum command / acknowledge lengths (next entry of `pokes`: 8 bytes at
    /// SBRM+0x14) and the same handle is opened again (its sbrm / sirm caches survive)
    ops: Vec<(char, Option<(usize, FaultKind)>)>,
    pokes: Vec<(u64, Vec<u8>)>,
    /// required payload/leader/trailer (16 bytes at SIRM+8) the device publishes only when the
    /// stream gets disabled (U3V: the required sizes never change while the stream is enabled)
    frozen: Option<Vec<u8>>,
}

fn fault_to_json(f: &Option<(usize, FaultKind)>) -> Value {
    match f {
        None => Value::Null,
        Some((k, FaultKind::Status(c))) => json!({"at": k, "kind": "status", "code": c}),
        Some((k, FaultKind::UsbSend(n))) => json!({"at": k, "kind": "send", "err": n}),
        Some((k, FaultKind::UsbRecv(n))) => json!({"at": k, "kind": "recv", "err": n}),
    }
}

fn static_name(n: &str) -> &'static str {
    USB_ERR_NAMES.iter().find(|x| **x == n).copied().unwrap_or("Io")
}

fn fault_from_json(v: &Value) -> Option<(usize, FaultKind)> {
    if v.is_null() {
        return None;
    }
    let k = v["at"].as_u64().unwrap() as usize;
    let kind = match v["kind"].as_str().unwrap() {
        "status" => FaultKind::Status(v["code"].as_u64().unwrap() as u16),
        "send" => FaultKind::UsbSend(static_name(v["err"].as_str().unwrap())),
        _ => FaultKind::UsbRecv(static_name(v["err"].as_str().unwrap())),
    };
    Some((k, kind))
}

impl Case {
    fn to_json(&self) -> Value {
        json!({
            "sbrm_addr": self.sbrm_addr.to_string(), "sirm_addr": self.sirm_addr.to_string(),
            "u3vcp_cap": self.u3vcp_cap.to_string(), "max_cmd": self.max_cmd, "max_ack": self.max_ack,
            "si_info": self.si_info, "si_control": self.si_control,
            "req_payload": self.req_payload.to_string(), "req_leader": self.req_leader, "req_trailer": self.req_trailer,
            "garbage": self.garbage.to_vec(), "response_ms": self.response_ms, "sirm_len": self.sirm_len,
            "ops": self.ops.iter().map(|(c, f)| json!({"op": c.to_string(), "fault": fault_to_json(f)})).collect::<Vec<_>>(),
            "pokes": self.pokes.iter().map(|(a, d)| json!({"addr": a.to_string(), "data": hex(d)})).collect::<Vec<_>>(),
            "frozen": self.frozen.as_ref().map(|d| hex(d)),
        })
    }
    fn from_json(v: &Value) -> Case {
        let s64 = |k: &str| v[k].as_str().unwrap().parse::<u64>().unwrap();
        let u32_ = |k: &str| v[k].as_u64().unwrap() as u32;
        let mut garbage = [0u32; 6];
        for (i, g) in v["garbage"].as_array().unwrap().iter().enumerate().take(6) {
            garbage[i] = g.as_u64().unwrap() as u32;
        }
        Case {
            sbrm_addr: s64("sbrm_addr"), sirm_addr: s64("sirm_addr"), u3vcp_cap: s64("u3vcp_cap"),
            max_cmd: u32_("max_cmd"), max_ack: u32_("max_ack"), si_info: u32_("si_info"), si_control: u32_("si_control"),
            req_payload: s64("req_payload"), req_leader: u32_("req_leader"), req_trailer: u32_("req_trailer"),
            garbage, response_ms: u32_("response_ms"), sirm_len: v["sirm_len"].as_u64().unwrap() as usize,
            ops: v["ops"].as_array().unwrap().iter()
                .map(|o| (o["op"].as_str().unwrap().chars().next().unwrap(), fault_from_json(&o["fault"]))).collect(),
            pokes: v["pokes"].as_array().map(|a| a.iter()
                .map(|p| (p["addr"].as_str().unwrap().parse().unwrap(), unhex(p["data"].as_str().unwrap()))).collect()).unwrap_or_default(),
            frozen: v["frozen"].as_str().map(unhex),
        }
    }
    fn regions(&self) -> Vec<Region> {
        let mut sirm = vec![];
        sirm.extend_from_slice(&self.si_info.to_le_bytes());
        sirm.extend_from_slice(&self.si_control.to_le_bytes());
        sirm.extend_from_slice(&self.req_payload.to_le_bytes());
        sirm.extend_from_slice(&self.req_leader.to_le_bytes());
        sirm.extend_from_slice(&self.req_trailer.to_le_bytes());
        for g in self.garbage {
            sirm.extend_from_slice(&g.to_le_bytes());
        }
        sirm.truncate(self.sirm_len);
        vec![
            abrm_region(0, self.response_ms, 0x10_0000, self.sbrm_addr),
            sbrm_region(self.sbrm_addr, self.u3vcp_cap, self.max_cmd, self.max_ack, self.sirm_addr),
            Region { base: self.sirm_addr, data: sirm },
        ]
    }
    /// negotiated limits that admit every register access in one command (the interface of
    /// Model/Streaming.lean); below them the request goes to the limits model (`runl`)
    fn single_command_limits(&self) -> bool {
        self.max_cmd >= 24 && self.max_ack >= 20
    }
    fn request(&self) -> String {
        self.request_as(!self.single_command_limits() || self.ops.iter().any(|(c, _)| *c == 'L'))
    }
    /// `with_limits`: address the model with the negotiated limits inside
    /// (Model/StreamingLimits.lean, `c15 runl`), else the one-command-per-register model
    fn request_as(&self, with_limits: bool) -> String {
        let mut s = if let Some(d) = &self.frozen {
            // a device that publishes `d` at SIRM+8 when the stream gets disabled
            // (Model/StreamingPublish.lean; one command per register)
            format!("c15 runp {} {} {} {} 3", profile(), self.sirm_addr + SI_CONTROL, self.sirm_addr + 8, hex(d))
        } else if with_limits {
            format!("c15 runl {} {} {} 3", profile(), self.max_cmd, self.max_ack)
        } else {
            format!("c15 run {} 3", profile())
        };
        for r in self.regions() {
            s.push_str(&format!(" {} {}", r.base, hex(&r.data)));
        }
        let mut pokes = self.pokes.iter();
        for (c, f) in &self.ops {
            if *c == 'M' || *c == 'L' {
                let (a, d) = pokes.next().expect("poke data");
                s.push_str(&format!(" {c}:{a}:{}", hex(d)));
                continue;
            }
            match f {
                None => s.push_str(&format!(" {c}")),
                Some((k, kind)) => s.push_str(&format!(" {c}@{k}:{}", kind.spec())),
            }
        }
        s
    }
}

fn le32(b: &[u8]) -> u32 {
    u32::from_le_bytes(b[..4].try_into().unwrap())
}

/// Everything observed for one op on the implementation.
struct OpObs {
    kind: char,
    res: String,
    log: Vec<Acc>,
    /// SIRM image (if fully mapped) before / after the op
    before: Option<Vec<u8>>,
    after: Option<Vec<u8>>,
    params: Option<[u64; 7]>,
    max_payload: Option<Result<u64, ()>>,
    /// lengths of the stream transfers the receive loop submitted for its first frame (`l`)
    frame: Option<Vec<usize>>,
}

fn run_impl(case: &Case) -> Result<(String, Vec<OpObs>), String> {
    let usb = FakeUsb::new(case.regions());
    let (mut h, mut strm) = open_both(&usb)?;
    if let Some(d) = &case.frozen {
        usb.publish_on_disable(case.sirm_addr + SI_CONTROL, case.sirm_addr + 8, d.clone());
    }
    let mut toks = vec![];
    let mut obs = vec![];
    let mut pokes = case.pokes.iter();
    for (c, f) in &case.ops {
        if *c == 'M' {
            let (a, d) = pokes.next().expect("poke data");
            let ok = usb.poke(*a, d);
            toks.push(format!("M={}", if ok { "ok" } else { "unmapped" }));
            continue;
        }
        if *c == 'L' {
            use cameleon::DeviceControl;
            let (a, d) = pokes.next().expect("limits data");
            let r = catch(|| -> Result<(), String> {
                h.close().map_err(|e| format!("close:{}", ctrl_err_name(&e)))?;
                if !usb.poke(*a, d) {
                    return Err("unmapped".into());
                }
                h.open().map_err(|e| format!("open:{}", ctrl_err_name(&e)))
            });
            usb.take_log();
            match r {
                Ok(Ok(())) => toks.push("L=ok".into()),
                Ok(Err(m)) => toks.push(format!("L=err:{m}")),
                Err(()) => {
                    toks.push("L=panic".into());
                    break;
                }
            }
            continue;
        }
        let before = usb.peek(case.sirm_addr, SIRM_LEN);
        usb.arm(f.clone());
        let mut params = None;
        let mut max_payload = None;
        let mut frame = None;
        let (res, is_panic) = match c {
            'l' => {
                use cameleon::PayloadStream;
                usb.submitted(true);
                let (sender, _receiver) = cameleon::payload::channel(3, 3);
                match catch(|| strm.start_streaming_loop(sender, &mut h)) {
                    Ok(Ok(())) => {
                        let sp = strm.params().clone();
                        // transfers of one frame according to the loop's own parameters
                        let n = 2 + sp.payload_count + (sp.payload_final1_size != 0) as usize + (sp.payload_final2_size != 0) as usize;
                        let deadline = std::time::Instant::now() + std::time::Duration::from_secs(10);
                        while usb.submitted(false).len() < n && std::time::Instant::now() < deadline {
                            std::thread::sleep(std::time::Duration::from_micros(200));
                        }
                        let stopped = catch(|| strm.stop_streaming_loop());
                        let sub: Vec<usize> = usb.submitted(true).iter().take(n).map(|x| x.1).collect();
                        let mx = catch(|| sp.maximum_payload_size() as u64);
                        let p = [
                            sp.leader_size as u64, sp.trailer_size as u64, sp.payload_size as u64, sp.payload_count as u64,
                            sp.payload_final1_size as u64, sp.payload_final2_size as u64, sp.timeout.as_millis() as u64,
                        ];
                        params = Some(p);
                        max_payload = Some(mx);
                        let mut hsh = FNV_INIT;
                        for l in &sub {
                            hsh = fnv_u64(hsh, *l as u64);
                        }
                        let fr = format!("{}:{:016x}", sub.len(), hsh);
                        frame = Some(sub);
                        let mxs = match mx { Ok(n) => n.to_string(), Err(()) => "panic".into() };
                        if !matches!(stopped, Ok(Ok(()))) {
                            ("err:StopLoop".to_string(), false)
                        } else {
                            (format!("ok:{},{},{},{},{},{},{},max={},frame={}", p[0], p[1], p[2], p[3], p[4], p[5], p[6], mxs, fr), false)
                        }
                    }
                    Ok(Err(_)) => ("err:Stream".to_string(), false),
                    Err(()) => ("panic".to_string(), true),
                }
            }
            'e' | 'd' | 's' => {
                let r = catch(|| match *c {
                    'e' => h.enable_streaming(),
                    'd' => h.disable_streaming(),
                    _ => h.sbrm().map(|_| ()),
                });
                match r {
                    Ok(Ok(())) => ("ok".to_string(), false),
                    Ok(Err(e)) => (format!("err:{}", ctrl_err_name(&e)), false),
                    Err(()) => ("panic".to_string(), true),
                }
            }
            _ => match catch(|| StreamParams::from_control(&mut h)) {
                Ok(Ok(sp)) => {
                    let mx = catch(|| sp.maximum_payload_size() as u64);
                    let p = [
                        sp.leader_size as u64, sp.trailer_size as u64, sp.payload_size as u64, sp.payload_count as u64,
                        sp.payload_final1_size as u64, sp.payload_final2_size as u64, sp.timeout.as_millis() as u64,
                    ];
                    params = Some(p);
                    max_payload = Some(mx);
                    let mxs = match mx { Ok(n) => n.to_string(), Err(()) => "panic".into() };
                    (format!("ok:{},{},{},{},{},{},{},max={}", p[0], p[1], p[2], p[3], p[4], p[5], p[6], mxs), false)
                }
                Ok(Err(e)) => (format!("err:{}", ctrl_err_name(&e)), false),
                Err(()) => ("panic".to_string(), true),
            },
        };
        let log = usb.take_log();
        toks.push(format!("{c}={res}{}", show_log(&log)));
        obs.push(OpObs { kind: *c, res, log, before, after: usb.peek(case.sirm_addr, SIRM_LEN), params, max_payload, frame });
        if is_panic {
            break;
        }
    }
    if usb.malformed_cmds() > 0 {
        return Err(format!("{} malformed commands reached the device", usb.malformed_cmds()));
    }
    let img = usb.regions().iter().map(|r| hex(&r.data)).collect::<Vec<_>>().join("|");
    toks.push(format!("img={img}"));
    Ok((toks.join(" "), obs))
}

/// Theorem scope: SIRM reachable and complete, alignment 2^k (k <= 31), aligned leader/trailer
/// fit u32, payload < 2^32 * transfer size.
fn in_scope(case: &Case, sirm: &[u8]) -> bool {
    let info = le32(&sirm[0..]);
    let e = info >> 24;
    // negotiated limits below these make ControlHandle refuse every read (max_cmd < 24) or
    // cannot carry a single data byte (max_ack <= 12)
    if e > 31 || case.u3vcp_cap & 1 == 0 || case.max_cmd < 24 || case.max_ack < 13 {
        return false;
    }
    let a = 1u128 << e;
    let up = |x: u128| (x + a - 1) / a * a;
    let ts = up(65536);
    let leader = le32(&sirm[0x10..]) as u128;
    let trailer = le32(&sirm[0x14..]) as u128;
    let payload = u64::from_le_bytes(sirm[8..16].try_into().unwrap()) as u128;
    up(leader) < 1 << 32 && up(trailer) < 1 << 32 && payload < (ts << 32)
}

fn enabling(w: &Acc, sirm_addr: u64) -> bool {
    // an applied write that covers the low byte of SI_CONTROL and sets bit 0
    match w {
        Acc::W { addr, data, applied: true, .. } => {
            let target = sirm_addr as u128 + SI_CONTROL as u128;
            let a = *addr as u128;
            a <= target && target < a + data.len() as u128 && data[(target - a) as usize] & 1 == 1
        }
        _ => false,
    }
}

fn oracle(case: &Case, obs: &[OpObs], rep: &mut Report) {
    let mut found: Vec<(Value, String)> = vec![];
    let mut counts: Vec<&'static str> = vec![];
    oracle_inner(case, obs, &mut found, &mut counts);
    for c in counts {
        rep.count(c);
    }
    for (sig, what) in found {
        rep.violation(sig, &what, case.to_json());
    }
}

fn oracle_inner(case: &Case, obs: &[OpObs], found: &mut Vec<(Value, String)>, counts: &mut Vec<&'static str>) {
    let mut viol = |check: &str, extra: Value, what: String| {
        let mut sig = json!({"check": check});
        if let (Some(o), Some(e)) = (sig.as_object_mut(), extra.as_object()) {
            for (k, v) in e {
                o.insert(k.clone(), v.clone());
            }
        }
        found.push((sig, what));
    };
    let mut starts = 0usize; // starts of the receive loop so far
    let mut programmed: Option<[u64; 6]> = None; // leader, trailer, size, count, f1, f2 of the last successful enable
    let mut required_payload = 0u64;
    for (i, o) in obs.iter().enumerate() {
        if o.res == "panic" {
            // the property demands an error, never a panic, whatever the device reports
            let class = match (&o.before, o.kind) {
                (Some(b), 'e') => {
                    let e = le32(&b[0..]) >> 24;
                    if in_scope(case, b) { "in-scope" } else if e >= 32 { "alignment-exponent>=32" } else { "aligned-size-overflows-u32" }
                }
                _ => "other",
            };
            viol("no_panic", json!({"op": o.kind.to_string(), "class": class}), format!("op #{i} '{}' panicked ({class})", o.kind));
            continue;
        }
        let any_failed = o.log.iter().any(|a| matches!(a, Acc::R { ok: false, .. } | Acc::W { ok: false, .. }));
        if any_failed && !o.res.starts_with("err") {
            viol("fault_reported", json!({"op": o.kind.to_string()}), format!("op #{i}: a device access failed but the call returned {}", o.res));
        }
        if o.kind == 'l' {
            // the receive loop must work with what the LAST enable_streaming programmed, on every
            // start of the loop on the same handle
            if let (Some(fr), Some(prog)) = (&o.frame, programmed) {
                let [ml, mt, ts, cnt, f1, f2] = prog;
                let mut want = vec![ml as usize];
                want.extend(std::iter::repeat(ts as usize).take(cnt as usize));
                if f1 != 0 {
                    want.push(f1 as usize);
                }
                if f2 != 0 {
                    want.push(f2 as usize);
                }
                want.push(mt as usize);
                if fr != &want {
                    viol("params_roundtrip", json!({"part": "receive-loop-transfers", "loop_start": starts}),
                        format!("start #{starts} of the receive loop submitted {} transfers {:?}.. for its first frame, programmed were {} transfers {:?}..",
                            fr.len(), &fr[..fr.len().min(4)], want.len(), &want[..want.len().min(4)]));
                }
            }
            starts += 1;
        }
        if o.kind == 'p' || o.kind == 'l' {
            if let (Some(p), Some(prog)) = (o.params, programmed) {
                if p[..6] != prog[..] {
                    viol("params_roundtrip", json!({"op": o.kind.to_string()}), format!("{} {:?}, programmed {:?}",
                        if o.kind == 'l' { "the receive loop runs with" } else { "from_control read" }, &p[..6], prog));
                }
                match o.max_payload {
                    Some(Ok(m)) if m >= required_payload => {}
                    other => viol("params_roundtrip", json!({"part": "maximum_payload_size"}),
                        format!("maximum_payload_size {:?} < required payload {required_payload}", other)),
                }
            }
            continue;
        }
        if o.kind == 'd' {
            programmed = None;
            continue;
        }
        if o.kind == 's' {
            continue;
        }
        // enable_streaming ---------------------------------------------------
        programmed = None;
        // enable-last / failure atomicity on the raw access log (any scope, any fault)
        for (j, a) in o.log.iter().enumerate() {
            if enabling(a, case.sirm_addr) {
                let last = j + 1 == o.log.len();
                let lost_ack = matches!(a, Acc::W { ok: false, applied: true, .. });
                if !last {
                    viol("enable_last", json!({}), format!("access #{j} sets the enable bit but is not the last access"));
                } else if o.res != "ok" && !lost_ack {
                    viol("failure_atomic_enable", json!({}), "enable bit written although the call failed".into());
                }
            }
        }
        let (Some(before), Some(after)) = (&o.before, &o.after) else { continue };
        let was_enabled = before[4] & 1 == 1;
        let writes: Vec<&Acc> = o.log.iter().filter(|a| matches!(a, Acc::W { .. })).collect();
        if was_enabled {
            // disable-first: the first write (if the call got that far) clears SI_CONTROL
            if let Some(Acc::W { addr, data, .. }) = writes.first() {
                if !(*addr == case.sirm_addr + SI_CONTROL && data == &vec![0u8; 4]) {
                    viol("disable_first", json!({}), "stream was enabled but the first write is not SI_CONTROL := 0".into());
                }
            }
        }
        if o.res != "ok" {
            // failed call: the enable bit may be set afterwards only if it was set before and the
            // disable write was not applied, or through a lost acknowledge of the final write
            let lost_enable = o.log.last().map_or(false, |a| enabling(a, case.sirm_addr));
            let disable_applied = was_enabled && matches!(writes.first(), Some(Acc::W { applied: true, .. }));
            if after[4] & 1 == 1 && !lost_enable && (!was_enabled || disable_applied) {
                viol("failure_atomic_enable", json!({"part": "image"}), "call failed but the enable bit is set in the device".into());
            }
            if !any_failed && in_scope(case, before) && case.frozen.is_none() {
                viol("spurious_error", json!({}), format!("no device failure, inputs in scope, but the call returned {}", o.res));
            }
            continue;
        }
        // successful call: the coverage demands apply to every input for which the call succeeds
        let scoped = in_scope(case, after);
        if !scoped {
            counts.push("enable-ok:outside-theorem-scope");
        }
        if le32(&before[0..]) >> 24 >= 64 {
            // no alignment 2^k with k >= 64 exists for the host: succeeding is wrong in itself
            viol("all_aligned", json!({"part": "unrepresentable-alignment-accepted"}),
                format!("enable_streaming succeeded although the device reports alignment exponent {}", le32(&before[0..]) >> 24));
            continue;
        }
        let e = le32(&before[0..]) >> 24;
        let a = 1u64 << e;
        // what the device requires once the call is over (a device may publish new requirements
        // when the call disables a still-enabled stream)
        let req_leader = le32(&after[0x10..]) as u64;
        let req_trailer = le32(&after[0x14..]) as u64;
        let req_payload = u64::from_le_bytes(after[8..16].try_into().unwrap());
        let ml = le32(&after[0x18..]) as u64;
        let ts = le32(&after[0x1C..]) as u64;
        let cnt = le32(&after[0x20..]) as u64;
        let f1 = le32(&after[0x24..]) as u64;
        let f2 = le32(&after[0x28..]) as u64;
        let mt = le32(&after[0x2C..]) as u64;
        if ml < req_leader {
            viol("leader_covered", json!({}), format!("maximum leader size {ml} < required {req_leader}"));
        }
        if mt < req_trailer {
            viol("trailer_covered", json!({"trailer_gt_leader": req_trailer > req_leader}),
                format!("maximum trailer size {mt} < required {req_trailer} (required leader {req_leader})"));
        }
        if (ts as u128) * (cnt as u128) + (f1 as u128) + (f2 as u128) < (req_payload as u128) {
            viol("payload_covered", json!({"in_theorem_scope": scoped}), format!("{ts} x {cnt} + {f1} + {f2} < required payload {req_payload}"));
        }
        for (name, v) in [("transfer_size", ts), ("final1", f1), ("final2", f2), ("max_leader", ml), ("max_trailer", mt)] {
            if v % a != 0 {
                viol("all_aligned", json!({"reg": name}), format!("{name} = {v} is not a multiple of the alignment {a}"));
            }
        }
        if after[4] & 1 != 1 {
            viol("enable_last", json!({"part": "image"}), "call succeeded but the enable bit is not set".into());
        }
        match o.log.last() {
            Some(Acc::W { addr, data, ok: true, applied: true }) if *addr == case.sirm_addr + SI_CONTROL && data == &vec![1u8, 0, 0, 0] => {}
            _ => viol("enable_last", json!({"part": "last-access"}), "the last access is not SI_CONTROL := 1".into()),
        }
        // every programmable register was written (after the optional disable): what the image
        // holds is what this call programmed, not left-over garbage
        let n_w = writes.len();
        if n_w != 7 + was_enabled as usize {
            viol("write_count", json!({}), format!("{n_w} writes, expected {}", 7 + was_enabled as usize));
        }
        programmed = Some([ml, mt, ts, cnt, f1, f2]);
        required_payload = req_payload;
    }
}

fn run_case(rep: &mut Report, case: &Case, src: &str) -> Vec<usize> {
    run_case_opt(rep, case, src, true)
}

/// `compare`: also hand the case to the Lean model (false only for device behaviour outside the
/// Lean device model; negotiated limits below "one register access = one command" go to the
/// limits model, see `Case::request`).
fn run_case_opt(rep: &mut Report, case: &Case, src: &str, compare: bool) -> Vec<usize> {
    rep.count(&format!("src/{src}"));
    let req = case.request();
    match run_impl(case) {
        Err(msg) => {
            // the scripted device could not even be opened: harness defect, make it loud
            rep.case(&req, false);
            rep.violation(json!({"check": "harness-open"}), &msg, case.to_json());
            vec![]
        }
        Ok((answer, obs)) => {
            let nontrivial = obs.iter().any(|o| o.kind == 'e' && o.res == "ok");
            rep.case(&req, nontrivial);
            for o in &obs {
                let class = if o.res.starts_with("ok") { "ok" } else { o.res.as_str() };
                rep.count(&format!("op:{}:{}", o.kind, class));
            }
            let e = case.si_info >> 24;
            rep.count(match e { 0..=16 => "exp:0..16", 17..=31 => "exp:17..31", 32..=63 => "exp:32..63", _ => "exp:>=64" });
            rep.count(if case.si_control & 1 == 1 { "initially:enabled" } else { "initially:disabled" });
            if case.ops.iter().any(|(_, f)| f.is_some()) {
                rep.count("with-fault");
            }
            oracle(case, &obs, rep);
            if rep.evaluations % 997 == 1 {
                rep.sample(json!({"request": req, "impl": answer}));
            }
            if compare {
                // theorem limits_single_command says the two models coincide on these limits:
                // every 8th such case is put to the limits model as well
                if case.frozen.is_some() {
                    rep.count("model:publishing-device");
                } else if case.single_command_limits() && rep.evaluations % 8 == 0 {
                    rep.count("model:both");
                    rep.expect(case.request_as(true), answer.clone());
                }
                if case.frozen.is_none() {
                    rep.count(if case.single_command_limits() { "model:single-command" } else { "model:limits" });
                }
                rep.expect(req, answer);
            }
            obs.iter().map(|o| o.log.len()).collect()
        }
    }
}

fn gen_sizes(rng: &mut Rng, e: u32) -> (u64, u32, u32) {
    let a: u64 = 1u64.checked_shl(e).unwrap_or(1);
    let ts: u64 = if e <= 31 { (65536 + a - 1) / a * a } else { 65536 };
    let small = |rng: &mut Rng| -> u64 {
        match rng.below(12) {
            0 => 0,
            1 => 1,
            2 => a.wrapping_sub(1),
            3 => a,
            4 => a.wrapping_add(1),
            5 => a.wrapping_mul(2).wrapping_sub(1),
            6 => 52,
            7 => 65535 + rng.below(3),
            8 => (1 << 31) - 1 + rng.below(3),
            9 => u32::MAX as u64 - rng.below(70000),
            10 => rng.below(5000),
            _ => rng.next_u64() & 0xffff_ffff,
        }
    };
    let leader = small(rng) as u32;
    let trailer = if rng.chance(1, 6) { leader } else { small(rng) as u32 };
    let k = match rng.below(6) { 0 => 1, 1 => 2, 2 => rng.below(100), 3 => 65535 + rng.below(3), 4 => (1 << 24) - 1 + rng.below(3), _ => rng.below(1 << 20) };
    let payload = match rng.below(16) {
        0 => 0,
        1 => 1,
        2 => a.wrapping_sub(1),
        3 => a.wrapping_add(rng.below(2)),
        4 => (65536 * k).wrapping_add(rng.below(3)).wrapping_sub(1),
        5 => (ts.wrapping_mul(k)).wrapping_add(rng.below(3)).wrapping_sub(1),
        6 => (ts.wrapping_mul(k)).wrapping_add(a).wrapping_sub(rng.below(3)),
        7 => (1u64 << 32) - 1 + rng.below(3),
        8 => (1u64 << 40) - 1 + rng.below(3),
        9 => (1u64 << 48) - 2 + rng.below(4),
        10 => (ts << 32).wrapping_sub(rng.below(3)),
        11 => rng.below(1 << 40),
        12 => rng.below(1 << 32),
        13 => rng.below(1 << 24),
        14 => 1920 * 1080 * (1 + rng.below(4)),
        _ => rng.interesting_u64(),
    };
    (payload, leader, trailer)
}

fn gen_case(rng: &mut Rng) -> Case {
    let e = match rng.below(40) {
        0..=29 => rng.below(17) as u32,
        30..=35 => 17 + rng.below(15) as u32,
        36..=37 => 32 + rng.below(32) as u32,
        _ => 64 + rng.below(192) as u32,
    };
    let (req_payload, req_leader, req_trailer) = gen_sizes(rng, e);
    // disjoint address slots
    let slots = [0x1_0000u64, 0x2_0000, 0x20_0000, 0x1_0000_0000, 0xFFFF_FFFF_0000, 0x8000_0000_0000_0000, u64::MAX - 0xFFFF];
    let i = rng.below(slots.len() as u64) as usize;
    let mut j = rng.below(slots.len() as u64) as usize;
    if j == i {
        j = (j + 1) % slots.len();
    }
    let sbrm_addr = slots[i] + 4 * rng.below(16);
    let mut sirm_addr = slots[j] + 4 * rng.below(16);
    let mut sirm_len = SIRM_LEN;
    match rng.below(60) {
        0 => sirm_len = 4 * rng.below(12) as usize, // truncated SIRM: unmapped registers
        1 => {
            // SIRM so high that `base + offset` leaves the address space
            sirm_addr = u64::MAX - 4 * rng.below(12) - 3;
            sirm_len = sirm_len.min((u64::MAX - sirm_addr) as usize + 1);
        }
        _ => {}
    }
    let limits = [64u32, 128, 1024, 1024, 1024, 4096, 65536 + 12, u32::MAX];
    let si_control = match rng.below(8) {
        0..=2 => 0,
        3..=5 => 1,
        6 => rng.next_u64() as u32 & !1,
        _ => rng.next_u64() as u32 | 1,
    };
    let mut garbage = [0u32; 6];
    for g in &mut garbage {
        *g = if rng.chance(1, 3) { 0 } else { rng.next_u64() as u32 };
    }
    let seqs: [&[char]; 11] = [&['e', 'p'], &['e', 'p'], &['e', 'p'], &['e', 'e', 'p'], &['d', 'e', 'p'], &['e', 'd', 'p'], &['p', 'e', 'p'], &['p'], &['d'],
        // SBRM cached through the public accessor, SIRM address not yet (mixed cache state)
        &['s', 'e', 'p'], &['s', 'd', 'e', 'p']];
    let ops = rng.pick(&seqs).iter().map(|c| (*c, None)).collect();
    Case {
        sbrm_addr,
        sirm_addr,
        u3vcp_cap: if rng.chance(1, 30) { rng.next_u64() & !1 } else { rng.next_u64() | 1 },
        max_cmd: *rng.pick(&limits),
        max_ack: *rng.pick(&limits),
        si_info: (e << 24) | (rng.next_u64() as u32 & 0x00ff_ffff),
        si_control,
        req_payload,
        req_leader,
        req_trailer,
        garbage,
        response_ms: 1 + rng.below(2000) as u32,
        sirm_len,
        ops,
        pokes: vec![],
        frozen: None,
    }
}

/// A well-formed in-scope device with the given negotiated limits.
fn plain_case(rng: &mut Rng, max_cmd: u32, max_ack: u32, enabled: bool) -> Case {
    let mut c = gen_case(rng);
    let e = rng.below(9) as u32;
    c.si_info = e << 24;
    c.si_control = enabled as u32;
    c.req_payload = 1920 * 1080 + rng.below(4096);
    c.req_leader = 52;
    c.req_trailer = 64 + rng.below(64) as u32;
    c.u3vcp_cap |= 1;
    c.sirm_len = SIRM_LEN;
    c.sbrm_addr = 0x2_0000;
    c.sirm_addr = 0x3_0000;
    c.max_cmd = max_cmd;
    c.max_ack = max_ack;
    c
}

/// Negotiated limits around the assumption of the model (max_cmd >= 24, max_ack >= 20):
/// * max_cmd 21..23: a ReadMem command (24 bytes) does not fit, ControlHandle refuses every read;
///   a register write would be split into 1..3 byte commands.  Demanded: no write command (in
///   particular no partial enable write) ever reaches the device from `enable_streaming`.
/// * the same limits after a re-open with warm caches (`disable_streaming` then needs no read):
///   the split disable write must clear the enable bit and respect the limit.
/// * max_ack 13..19 with max_cmd >= 24: register reads are split, writes are single commands:
///   the full property oracle applies.
/// (a), (c) and the history of (b) (as a case with the re-open op `L`) are also compared with the
/// limits model (`c15 runl`).
fn boundary_limits(rep: &mut Report, rng: &mut Rng) {
    for max_cmd in [21u32, 22, 23] {
        for enabled in [false, true] {
            // (a) fresh handle
            let mut c = plain_case(rng, max_cmd, 1024, enabled);
            c.ops = vec![('e', None), ('d', None), ('p', None), ('e', None)];
            let req = format!("boundary fresh max_cmd={max_cmd} enabled={enabled}");
            rep.count("src/boundary-small-max-cmd");
            match run_impl(&c) {
                Err(m) => rep.violation(json!({"check": "harness-open"}), &m, c.to_json()),
                Ok((answer, obs)) => {
                    rep.case(&req, false);
                    rep.count("model:limits");
                    rep.expect(c.request(), answer);
                    for o in &obs {
                        if !o.res.starts_with("err") {
                            rep.violation(json!({"check": "small_max_cmd", "part": "result"}),
                                &format!("max_cmd {max_cmd}: op '{}' returned {} although no read command fits", o.kind, o.res), c.to_json());
                        }
                        if o.log.iter().any(|a| matches!(a, Acc::W { .. })) {
                            rep.violation(json!({"check": "small_max_cmd", "part": "write-reached-device"}),
                                &format!("max_cmd {max_cmd}: op '{}' sent a write command", o.kind), c.to_json());
                        }
                        if o.log.iter().any(|a| matches!(a, Acc::R { .. })) {
                            rep.violation(json!({"check": "small_max_cmd", "part": "oversized-read-command"}),
                                &format!("max_cmd {max_cmd}: op '{}' sent a 24 byte read command", o.kind), c.to_json());
                        }
                    }
                    oracle(&c, &obs, rep);
                }
            }
            // (b) warm caches, then the device re-negotiates a smaller command length
            // (b1) the same history as a case with the re-open op `L`, compared with the limits
            // model: enable (caches warm), re-open with max_cmd 21..23, enable (refused, no
            // command), disable (split write), read-back (refused), re-open with room again,
            // enable, read-back
            let mut c = plain_case(rng, 1024, 1024, enabled);
            let lim = |cmd: u32, ack: u32| {
                let mut d = cmd.to_le_bytes().to_vec();
                d.extend_from_slice(&ack.to_le_bytes());
                d
            };
            let small_ack = *rng.pick(&[13u32, 16, 19, 1024]);
            c.ops = vec![('e', None), ('L', None), ('e', None), ('d', None), ('p', None), ('L', None), ('e', None), ('p', None), ('d', None)];
            c.pokes = vec![(c.sbrm_addr + 0x14, lim(max_cmd, 1024)), (c.sbrm_addr + 0x14, lim(24 + rng.below(8) as u32, small_ack))];
            rep.count("src/boundary-reopen-with-other-limits");
            match run_impl(&c) {
                Err(m) => rep.violation(json!({"check": "harness-open"}), &m, c.to_json()),
                Ok((answer, obs)) => {
                    rep.case(&c.request(), obs.iter().any(|o| o.kind == 'e' && o.res == "ok"));
                    rep.count("model:limits");
                    if !answer.contains("L=ok") || answer.contains("L=err") || answer.contains("panic") {
                        rep.violation(json!({"check": "harness-open", "part": "reopen"}), &answer, c.to_json());
                    }
                    rep.expect(c.request(), answer);
                }
            }
            let c = plain_case(rng, 1024, 1024, enabled);
            rep.count("src/boundary-small-max-cmd-after-reopen");
            rep.case(&format!("boundary reopen max_cmd={max_cmd} enabled={enabled}"), true);
            let usb = FakeUsb::new(c.regions());
            let r = catch(|| -> Result<(), String> {
                let mut h = open_handle(&usb)?;
                h.enable_streaming().map_err(|e| format!("first enable: {e}"))?;
                h.close().map_err(|e| format!("close: {e}"))?;
                if !usb.poke(c.sbrm_addr + 0x14, &max_cmd.to_le_bytes()) {
                    return Err("poke".into());
                }
                h.open().map_err(|e| format!("reopen: {e}"))?;
                usb.arm(None);
                let r = h.enable_streaming();
                let log = usb.take_log();
                if r.is_ok() {
                    return Err("enable_streaming succeeded although no read command fits".into());
                }
                if log.iter().any(|a| matches!(a, Acc::W { .. })) {
                    return Err("enable_streaming sent a write command although its reads are refused".into());
                }
                usb.arm(None);
                let r = h.disable_streaming();
                let log = usb.take_log();
                let room = (max_cmd - 20) as usize;
                if log.iter().any(|a| matches!(a, Acc::W { data, .. } if data.len() > room) || matches!(a, Acc::R { .. })) {
                    return Err("disable_streaming sent a command longer than the negotiated maximum".into());
                }
                match r {
                    Ok(()) => {
                        let ctrl = usb.peek(c.sirm_addr + SI_CONTROL, 4).unwrap();
                        if ctrl != [0, 0, 0, 0] {
                            return Err(format!("disable_streaming returned Ok but SI_CONTROL = {ctrl:?}"));
                        }
                        if log.len() != (4 + room - 1) / room {
                            return Err(format!("disable write split into {} commands", log.len()));
                        }
                    }
                    Err(_) => {
                        if log.iter().any(|a| matches!(a, Acc::W { .. })) {
                            return Err("disable_streaming failed after a partial write".into());
                        }
                    }
                }
                Ok(())
            });
            match r {
                Ok(Ok(())) => {}
                Ok(Err(m)) => rep.violation(json!({"check": "small_max_cmd", "part": "reopen"}), &format!("max_cmd {max_cmd} after re-open: {m}"), c.to_json()),
                Err(()) => rep.violation(json!({"check": "no_panic", "class": "small_max_cmd-reopen"}), "panic", c.to_json()),
            }
        }
    }
    // (c) small acknowledge lengths: split reads, full oracle
    for max_ack in [13u32, 14, 15, 16, 19, 20] {
        for max_cmd in [24u32, 27, 64] {
            for enabled in [false, true] {
                let mut c = plain_case(rng, max_cmd, max_ack, enabled);
                c.ops = vec![('e', None), ('p', None), ('e', None), ('d', None)];
                run_case_opt(rep, &c, "boundary-small-max-ack", true);
            }
        }
    }
}

/// Multi-step histories on one open pair of handles: enable_streaming, start the real receive
/// loop (`StreamHandle::start_streaming_loop`), stop it, the device reports other required sizes
/// (ROI / chunk mode changed; sometimes another alignment), enable again, start the loop again ...
/// Demanded for EVERY start: `StreamHandle::params()` and the transfers the loop submits equal
/// what the preceding enable_streaming programmed.
fn sessions(rep: &mut Report, rng: &mut Rng, thorough: bool) {
    let n = if thorough { 500 } else { 80 };
    for _ in 0..n {
        let (ack, en) = (*rng.pick(&[64u32, 1024]), rng.bool());
        let mut c = plain_case(rng, 1024, ack, en);
        c.garbage = [0; 6];
        let rounds = 2 + rng.below(2) as usize;
        let mut ops = vec![];
        let mut pokes = vec![];
        for k in 0..rounds {
            let payload: u64 = match rng.below(6) {
                0 => 640 * 480,
                1 => 1920 * 1080 * 2 + 1000,
                2 => 65536 * (1 + rng.below(20)),
                3 => 1 + rng.below(5000),
                4 => 0,
                _ => rng.below(3_000_000),
            };
            let leader = *rng.pick(&[0u32, 52, 53, 1024, 65536, 70_001]);
            let trailer = *rng.pick(&[0u32, 32, 64, 260, 1024, 66_000]);
            if k == 0 {
                c.req_payload = payload;
                c.req_leader = leader;
                c.req_trailer = trailer;
            } else {
                let mut d = payload.to_le_bytes().to_vec();
                d.extend_from_slice(&leader.to_le_bytes());
                d.extend_from_slice(&trailer.to_le_bytes());
                ops.push(('M', None));
                pokes.push((c.sirm_addr + 8, d));
                if rng.chance(1, 3) {
                    // the alignment changes as well
                    ops.push(('M', None));
                    pokes.push((c.sirm_addr, ((rng.below(13) as u32) << 24).to_le_bytes().to_vec()));
                }
            }
            ops.push(('e', None));
            ops.push(('l', None));
            if rng.chance(1, 4) {
                ops.push(('p', None));
            }
            if rng.chance(3, 4) {
                ops.push(('d', None)); // otherwise the next enable finds the stream enabled
            }
        }
        c.ops = ops;
        c.pokes = pokes;
        run_case(rep, &c, "acquisition-sessions");
    }
}

fn gen_fault(rng: &mut Rng, k: usize) -> (usize, FaultKind) {
    let kind = match rng.below(4) {
        0 => FaultKind::Status(STATUS_ACCESS_DENIED),
        1 => FaultKind::Status(*rng.pick(&[0x8001u16, 0x8002, 0x8003, 0x8004, 0x8005, 0x8007, 0x800B, 0x800E, 0x800F, 0x8FFF])),
        2 => FaultKind::UsbSend(*rng.pick(&USB_ERR_NAMES[..])),
        _ => FaultKind::UsbRecv(*rng.pick(&USB_ERR_NAMES[..])),
    };
    (k, kind)
}

fn main() {
    let args = parse_args();
    let mut rep = Report::new(
        "C15",
        "one case = one handle lifetime over a scripted device: (alignment exponent, required leader/payload/trailer, initial SI_CONTROL, register garbage, map addresses, negotiated limits) x op sequence (enable / disable / sbrm / from_control / start+stop of the real receive loop on one StreamHandle / device-side register changes) x optional failure of the k-th device access; non-trivial = at least one enable_streaming returned Ok; distinct by the full request line",
    );
    let mut rng = Rng::new(args.seed);

    if let Some(path) = &args.replay {
        let v: Value = serde_json::from_str(&std::fs::read_to_string(path).unwrap()).unwrap();
        let case = Case::from_json(&v["replay"]);
        let compare = case.frozen.is_none() || case.single_command_limits();
        run_case_opt(&mut rep, &case, "replay", compare);
        rep.write(&args);
        return;
    }

    // 0. minimised past failures first
    if let Ok(dir) = std::fs::read_dir("/verif/corpus/C15") {
        let mut files: Vec<_> = dir.filter_map(|e| e.ok()).map(|e| e.path()).filter(|p| p.extension().map_or(false, |x| x == "json")).collect();
        files.sort();
        for f in files {
            if let Ok(v) = serde_json::from_str::<Value>(&std::fs::read_to_string(&f).unwrap_or_default()) {
                if v["replay"].is_object() {
                    run_case(&mut rep, &Case::from_json(&v["replay"]), "corpus");
                }
            }
        }
    }

    // 1. systematic grid: exponents 0..=16 x boundary sizes x enabled/disabled, plain `e p`
    for e in 0u32..=16 {
        let a = 1u64 << e;
        let ts = (65536 + a - 1) / a * a;
        let sizes: Vec<u64> = vec![0, 1, a - 1, a, a + 1, 52, 1024, 65535, 65536, 65537];
        let payloads: Vec<u64> = vec![
            0, 1, a - 1, a, a + 1, ts - 1, ts, ts + 1, 2 * ts - a, 2 * ts - a + 1, 3 * ts + 1, 65536 * 7 - 1, 65536 * 7, 65536 * 7 + 1,
            (1 << 32) - 1, 1 << 32, (1 << 32) + 1, (1 << 40) - 1, 1 << 40, (1 << 40) + 1,
        ];
        for (pi, &p) in payloads.iter().enumerate() {
            for (li, &l) in sizes.iter().enumerate() {
                // trailer sweeps the same list, offset so that trailer > leader, = and < all occur
                let t = sizes[(li + pi + 1) % sizes.len()];
                let mut c = gen_case(&mut rng);
                c.si_info = (e << 24) | (c.si_info & 0x00ff_ffff);
                c.req_payload = p;
                c.req_leader = l as u32;
                c.req_trailer = t as u32;
                c.si_control = ((pi + li) % 2) as u32;
                c.u3vcp_cap |= 1;
                c.sirm_len = SIRM_LEN;
                if c.sirm_addr > u64::MAX - 0x100 {
                    c.sirm_addr = 0x30_0000;
                }
                c.ops = vec![('e', None), ('p', None)];
                run_case(&mut rep, &c, "grid");
            }
        }
    }

    // 1b. negotiated limits at the boundary of "one register access = one command"
    boundary_limits(&mut rep, &mut rng);

    // 1c. acquisition sessions: ONE control handle and ONE stream handle stay open while the
    // device is reconfigured between two or three acquisitions
    sessions(&mut rep, &mut rng, args.thorough());

    // 1d. a device that keeps the required sizes frozen while the stream is enabled and publishes
    // the sizes of the new configuration when the host disables the stream (USB3 Vision: "never
    // changed while stream is enabled"): the call has to cover what the device requires after it.
    // Compared with the publishing-device model (`c15 runp`, Model/StreamingPublish.lean) and
    // checked by the oracle; every third case lets the disable write fail or lose its acknowledge
    // (a refused write publishes nothing, an executed one does).
    for i in 0..(if args.thorough() { 300 } else { 60 }) {
        let mut c = plain_case(&mut rng, 1024, 1024, true);
        c.req_payload = 640 * 480;
        c.req_leader = 52;
        c.req_trailer = 32;
        let payload: u64 = 1920 * 1080 * 2 + rng.below(100_000);
        let (leader, trailer) = (*rng.pick(&[52u32, 1024, 4096]), *rng.pick(&[32u32, 260, 5000]));
        let mut d = payload.to_le_bytes().to_vec();
        d.extend_from_slice(&leader.to_le_bytes());
        d.extend_from_slice(&trailer.to_le_bytes());
        c.frozen = Some(d);
        c.ops = if i % 2 == 0 { vec![('e', None), ('p', None)] } else { vec![('e', None), ('l', None), ('d', None)] };
        if i % 3 == 2 {
            // accesses of the first op on a fresh handle: 3 resolution reads, SI_CONTROL read,
            // disable write (index 4), ...
            let k = 3 + rng.below(4) as usize;
            c.ops = vec![('e', Some(gen_fault(&mut rng, k))), ('p', None), ('e', None), ('p', None)];
        }
        run_case_opt(&mut rep, &c, "requirements-published-on-disable", true);
    }

    // 1e. random cases under small negotiated limits (reads refused / split, writes refused /
    // split), compared with the limits model; for a subset the failure of every COMMAND of the
    // first op (a register read may fail in its second half), then a retry and a read-back
    let small_rounds = if args.thorough() { 8_000 } else { 800 };
    for i in 0..small_rounds {
        let mut c = if rng.chance(1, 2) { gen_case(&mut rng) } else { plain_case(&mut rng, 0, 0, false) };
        if rng.chance(1, 2) {
            c.si_control |= 1;
        }
        c.max_cmd = *rng.pick(&[20u32, 21, 22, 23, 24, 24, 24, 25, 27, 28, 64, 1024]);
        c.max_ack = *rng.pick(&[12u32, 13, 13, 14, 15, 16, 17, 19, 19, 20, 21, 1024]);
        if c.single_command_limits() {
            c.max_ack = 13 + rng.below(7) as u32;
        }
        let ns = run_case(&mut rep, &c, "random-small-limits");
        let n = ns.first().copied().unwrap_or(0);
        if i % 10 == 0 {
            for k in 0..=n {
                let mut cf = c.clone();
                let f = gen_fault(&mut rng, k);
                let first = cf.ops[0].0;
                cf.ops = vec![(first, Some(f)), ('p', None), ('e', None), ('p', None)];
                run_case(&mut rep, &cf, "small-limits-fault-each-command");
            }
        }
    }

    // 2. random cases incl. larger exponents, unmapped / overflowing maps, op sequences
    let rounds = if args.thorough() { 60_000 } else { 6_000 };
    for i in 0..rounds {
        let c = gen_case(&mut rng);
        let ns = run_case(&mut rep, &c, "random");
        let n = ns.first().copied().unwrap_or(0);
        // 3. failure at each step of the first op, for a subset of cases
        let every = if args.thorough() { 6 } else { 12 };
        if i % every == 0 {
            for k in 0..=n {
                let mut cf = c.clone();
                let f = gen_fault(&mut rng, k);
                // first op faulted, then a second attempt on the same handle and a read-back
                let first = cf.ops[0].0;
                cf.ops = vec![(first, Some(f)), ('p', None), ('e', None), ('p', None)];
                run_case(&mut rep, &cf, "fault-each-step");
            }
        }
        // 4. failure at each step of a later op (warm caches, stream possibly enabled by the
        // earlier ops), then recovery
        if i % every == every / 2 && ns.len() >= 2 {
            let j = 1 + rng.below(ns.len() as u64 - 1) as usize;
            for k in 0..=ns[j] {
                let mut cf = c.clone();
                cf.ops[j].1 = Some(gen_fault(&mut rng, k));
                cf.ops.push(('e', None));
                cf.ops.push(('p', None));
                run_case(&mut rep, &cf, "fault-each-step-later-op");
            }
        }
        if rep.evaluations % 20_000 == 0 {
            rep.flush_model(&args.camdrv);
        }
    }
    rep.write(&args);
}
