#[path = "ctrl_common/mod.rs"]
mod ctrl_common;
use cameleon::DeviceControl;
use ctrl_common::*;
fn main() {
    let boot = Bootstrap { max_cmd: 24, max_ack: 13, response_time_ms: 1, ..Bootstrap::default() };
    let mut mem = SparseMem::new(236);
    boot.install(&mut mem);
    let usb = FakeUsb::new(mem, DevCfg::default());
    let mut h = make_handle(&usb);
    println!("{:?}", h.open().map_err(|e| format!("{e:?}")));
    for w in usb.lock().wire.iter() { println!("{w:?}"); }
    println!("{:?}", usb.lock().host_errors);
}
