//! C18 — readability and writability reflect every access restriction.
//! Same machinery as C03 with a generator biased to access restrictions; every
//! `is_readable` / `is_writable` answer is compared with (a) the model, (b) the Rust-side
//! evaluation of the `Readable` / `Writable` predicate on the abstract graph (property
//! oracle) and (c) the Lean specification predicate (`spec=`).
mod genapi_common;
use genapi_common::*;

fn main() {
    run(Mode { property: "C18", spec: true, cfg: GenCfg { access_bias: true } });
}
