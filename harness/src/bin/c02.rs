//! C02 — masked bit-field writes are isolated, range-checked and reversible.
//! Real `MaskedIntReg` nodes and `StructReg` entries are built by the real parser from
//! generated XML for EVERY (length, lsb, msb) within the register x byte order x sign
//! (plus the single-`Bit` form and malformed descriptions), caching off, and driven
//! through `IInteger::{value,set_value,min,max}` on a recording device.  Every case is
//! checked against an independent expectation on wide integers (property oracle) and
//! sent to the Lean model (`CamVerif.Model.BitMask`).

#[path = "../c01_regdev.rs"]
mod regdev;

use camharness::*;
use cameleon_genapi::builder::GenApiBuilder;
use cameleon_genapi::prelude::*;
use cameleon_genapi::store::{CacheSink, DefaultNodeStore, DefaultValueStore};
use cameleon_genapi::{NodeId, NodeStore, ValueCtxt};
use regdev::*;

#[derive(Clone, Debug)]
struct Spec {
    name: String,
    len: i64,
    be: bool,
    signed: bool,
    /// raw numbers as written in the XML
    lsb: u64,
    msb: u64,
    bit_form: bool,
    addr: i64,
    /// index of the sibling group this field belongs to (None: a stand-alone MaskedIntReg node)
    group: Option<usize>,
    /// sibling group realised as separate MaskedIntReg nodes sharing one address (else: StructReg entries)
    shared_masked: bool,
}

impl Spec {
    /// normalised (l, m) when the description is well formed
    fn norm(&self) -> Option<(u32, u32)> {
        if !matches!(self.len, 1 | 2 | 4 | 8) {
            return None;
        }
        let bits = 8 * self.len as u64;
        if self.lsb >= bits || self.msb >= bits {
            return None;
        }
        let (l, m) = if self.be { (bits - 1 - self.lsb, bits - 1 - self.msb) } else { (self.lsb, self.msb) };
        (l <= m).then_some((l as u32, m as u32))
    }
}

fn mask_xml(s: &Spec) -> String {
    if s.bit_form {
        format!("<Bit>{}</Bit>", s.lsb)
    } else {
        format!("<LSB>{}</LSB><MSB>{}</MSB>", s.lsb, s.msb)
    }
}

fn xml_of(specs: &[Spec]) -> String {
    let mut x = String::from(XML_HEAD);
    let mut i = 0;
    while i < specs.len() {
        let s = &specs[i];
        let e = if s.be { "BigEndian" } else { "LittleEndian" };
        let sg = if s.signed { "Signed" } else { "Unsigned" };
        match s.group {
            None | Some(_) if s.group.is_none() || s.shared_masked => {
                x += &format!(
                    "<MaskedIntReg Name=\"{}\"><Address>{}</Address><Length>{}</Length><AccessMode>RW</AccessMode><pPort>Device</pPort>{}{}",
                    s.name, s.addr, s.len, if i % 2 == 0 { "<Cachable>NoCache</Cachable>" } else { "" }, mask_xml(s));
                if s.signed || i % 3 == 0 {
                    x += &format!("<Sign>{sg}</Sign>");
                }
                if s.be || i % 3 == 1 {
                    x += &format!("<Endianess>{e}</Endianess>");
                }
                x += "</MaskedIntReg>\n";
                i += 1;
            }
            None => unreachable!(),
            Some(g) => {
                x += &format!(
                    "<StructReg Comment=\"g{g}\"><Address>{}</Address><Length>{}</Length><AccessMode>RW</AccessMode><pPort>Device</pPort><Cachable>NoCache</Cachable><Endianess>{e}</Endianess>\n",
                    s.addr, s.len);
                while i < specs.len() && specs[i].group == Some(g) {
                    let t = &specs[i];
                    x += &format!("  <StructEntry Name=\"{}\"><AccessMode>RW</AccessMode>{}<Sign>{}</Sign></StructEntry>\n",
                        t.name, mask_xml(t), if t.signed { "Signed" } else { "Unsigned" });
                    i += 1;
                }
                x += "</StructReg>\n";
            }
        }
    }
    x += XML_TAIL;
    x
}

struct World {
    store: DefaultNodeStore,
    cx: ValueCtxt<DefaultValueStore, CacheSink>,
    specs: Vec<Spec>,
    ids: Vec<NodeId>,
}

fn build(specs: Vec<Spec>) -> World {
    let xml = xml_of(&specs);
    let (_, store, cx) = GenApiBuilder::<DefaultNodeStore>::default().no_cache().build(&xml).expect("generated XML parses");
    let ids = specs.iter().map(|s| store.id_by_name(&s.name).expect("node present")).collect();
    World { store, cx, specs, ids }
}

#[derive(Clone, Copy, Debug, PartialEq)]
enum Op {
    Min,
    Max,
    Value,
    Set(i64),
}

#[derive(Clone, Debug, PartialEq)]
enum Out {
    Int(i64),
    Unit,
    Err(&'static str),
    Panic,
}

fn run_real(w: &mut World, idx: usize, op: Op, dev: &mut RecDevice) -> Out {
    let nid = w.ids[idx];
    let store = &w.store;
    let cx = &mut w.cx;
    let r = catch(|| -> Result<Out, cameleon_genapi::GenApiError> {
        let node = nid.expect_iinteger_kind(store)?;
        Ok(match op {
            Op::Min => Out::Int(node.min(dev, store, cx)?),
            Op::Max => Out::Int(node.max(dev, store, cx)?),
            Op::Value => Out::Int(node.value(dev, store, cx)?),
            Op::Set(v) => {
                node.set_value(v, dev, store, cx)?;
                Out::Unit
            }
        })
    });
    match r {
        Err(()) => Out::Panic,
        Ok(Err(e)) => Out::Err(err_name(&e)),
        Ok(Ok(o)) => o,
    }
}

// ---------- independent expectation on wide integers ----------

fn word_of(bytes: &[u8], be: bool) -> u128 {
    let mut v: u128 = 0;
    if be {
        for b in bytes {
            v = (v << 8) | *b as u128;
        }
    } else {
        for b in bytes.iter().rev() {
            v = (v << 8) | *b as u128;
        }
    }
    v
}

fn bytes_of(word: u128, len: usize, be: bool) -> Vec<u8> {
    let mut b: Vec<u8> = (0..len).map(|i| ((word >> (8 * i)) & 0xff) as u8).collect();
    if be {
        b.reverse();
    }
    b
}

/// representable range of a `w`-bit field through the i64 API
fn exp_range(w: u32, signed: bool) -> (i64, i64) {
    if signed {
        if w == 64 { (i64::MIN, i64::MAX) } else { (-(1i64 << (w - 1)), (1i64 << (w - 1)) - 1) }
    } else if w >= 63 {
        // documented exception: an unsigned 64-bit field cannot report 2^64-1 through i64
        (0, i64::MAX)
    } else {
        (0, (1i64 << w) - 1)
    }
}

/// the value the field bits denote (two's complement when signed; an unsigned 64-bit
/// field with the top bit set is reported as the same 64 bits through i64)
fn exp_value(word: u128, l: u32, w: u32, signed: bool) -> i64 {
    let f = (word >> l) & ((1u128 << w) - 1);
    if signed && (f >> (w - 1)) & 1 == 1 {
        (f as i128 - (1i128 << w)) as i64
    } else {
        f as u64 as i64
    }
}

struct Runner {
    w: World,
    rep: Report,
    camdrv: String,
}

const PAD: usize = 2;

impl Runner {
    fn dev_for(&self, idx: usize, reg: &[u8], rng: &mut Rng) -> RecDevice {
        let s = &self.w.specs[idx];
        let mut img = rng.bytes(PAD);
        img.extend_from_slice(reg);
        img.extend(rng.bytes(PAD));
        RecDevice::new(s.addr - PAD as i64, img, vec![])
    }

    fn sig(s: &Spec, kind: &str) -> Value {
        let (l, m) = s.norm().map(|(l, m)| (l as i64, m as i64)).unwrap_or((-1, -1));
        json!({"kind": kind, "len": s.len, "signed": s.signed, "be": s.be, "width": if l >= 0 { m - l + 1 } else { -1 },
               "msb_norm": m, "lsb_is_zero": l == 0, "struct_entry": s.group.is_some() && !s.shared_masked})
    }

    /// one op on `dev`; oracle + model request; returns output
    fn case(&mut self, idx: usize, op: Op, dev: &mut RecDevice, src: &str) -> Out {
        let s = self.w.specs[idx].clone();
        let before = dev.clone();
        dev.log.clear();
        let out = run_real(&mut self.w, idx, op, dev);
        let (opname, arg) = match op {
            Op::Min => ("min", "-".to_string()),
            Op::Max => ("max", "-".to_string()),
            Op::Value => ("value", "-".to_string()),
            Op::Set(v) => ("set", v.to_string()),
        };
        let req = format!(
            "c02 {opname} {} {} {} {} {} {} {} {} {} {} {arg}",
            profile(), s.len, if s.be { "be" } else { "le" }, if s.signed { "s" } else { "u" },
            if s.bit_form { "b" } else { "r" }, s.lsb, s.msb, s.addr, before.base, hex(&before.img)
        );
        let res = match &out {
            Out::Int(v) => format!("ok {v}"),
            Out::Unit => "ok".into(),
            Out::Err(e) => format!("err {e}"),
            Out::Panic => "panic".into(),
        };
        let ans = answer(&res, dev);
        // distinct non-trivial cases: hashed by (description, register bytes, op, argument) -- not by
        // the random pad bytes around the register; min/max touch nothing and do not count
        let reg_part = if s.len >= 0 && before.img.len() >= 2 * PAD + s.len as usize { hex(&before.img[PAD..PAD + s.len as usize]) } else { "-".into() };
        let canon = format!("{} {} {} {} {} {} {} {opname} {arg} {}", s.len, s.be, s.signed, s.bit_form, s.lsb, s.msb, s.group.is_some() && !s.shared_masked,
            if matches!(op, Op::Min | Op::Max) { "-".to_string() } else { reg_part });
        self.rep.case(&canon, !matches!(out, Out::Err(_) | Out::Panic) && !matches!(op, Op::Min | Op::Max));
        self.rep.count(&format!("op/{opname}"));
        self.rep.count(&format!("src/{src}"));
        self.rep.count(&format!("out/{}", match &out { Out::Err(e) => format!("err-{e}"), Out::Panic => "panic".into(), _ => "ok".into() }));
        self.rep.count(&format!("len/{}", s.len));
        if s.shared_masked {
            self.rep.count("node/masked-sharing-address");
        } else if s.group.is_some() {
            self.rep.count("node/struct-entry");
        } else if s.bit_form {
            self.rep.count("node/masked-bit");
        } else {
            self.rep.count("node/masked-range");
        }

        // ----- property oracle (well-formed descriptions only) -----
        if let Some((l, m)) = s.norm() {
            let wd = m - l + 1;
            self.rep.count(&format!("width/{}", match wd { 1 => "1", 2..=8 => "2-8", 9..=16 => "9-16", 17..=32 => "17-32", 33..=62 => "33-62", 63 => "63", _ => "64" }));
            let len = s.len as usize;
            let reg_before = &before.img[PAD..PAD + len];
            let reg_after = &dev.img[PAD..PAD + len];
            let old = word_of(reg_before, s.be);
            let (emin, emax) = exp_range(wd, s.signed);
            let replay = json!({"spec": {"len": s.len, "be": s.be, "signed": s.signed, "lsb": s.lsb.to_string(), "msb": s.msb.to_string(), "bit_form": s.bit_form, "addr": s.addr.to_string(), "struct_entry": s.group.is_some() && !s.shared_masked},
                                "op": opname, "arg": arg, "img": hex(&before.img)});
            let mut bad: Option<(&str, String)> = None;
            if before.img[..PAD] != dev.img[..PAD] || before.img[PAD + len..] != dev.img[PAD + len..] || !dev.outside.is_empty() {
                bad = Some(("frame", "bytes outside the register changed".into()));
            } else if out == Out::Panic {
                bad = Some(("panic", format!("{opname} panicked")));
            } else {
                match op {
                    Op::Min => {
                        if out != Out::Int(emin) || !dev.log.is_empty() {
                            bad = Some(("range", format!("min() = {:?}, expected {emin}", out)));
                        }
                    }
                    Op::Max => {
                        if out != Out::Int(emax) || !dev.log.is_empty() {
                            bad = Some(("range", format!("max() = {:?}, expected {emax}", out)));
                        }
                    }
                    Op::Value => {
                        let ev = exp_value(old, l, wd, s.signed);
                        if out != Out::Int(ev) {
                            bad = Some(("value-decode", format!("value() = {:?}, register {} holds {ev} in bits {l}..{m}", out, hex(reg_before))));
                        } else if dev.log != vec![Access { write: false, addr: s.addr, len, bytes: reg_before.to_vec() }] || reg_after != reg_before {
                            bad = Some(("footprint", format!("value(): log {}", dev.log_str())));
                        }
                    }
                    Op::Set(v) => {
                        if v >= emin && v <= emax {
                            let fmask = ((1u128 << wd) - 1) << l;
                            let new = (old & !fmask) | (((v as i128 as u128) << l) & fmask);
                            let new = new & ((1u128 << (8 * len)) - 1);
                            let img = bytes_of(new, len, s.be);
                            if out != Out::Unit {
                                bad = Some(("in-range-refused", format!("set_value({v}) = {:?}, range [{emin},{emax}]", out)));
                            } else if reg_after != &img[..] {
                                bad = Some(("isolation", format!("set_value({v}) on {}: register became {}, expected {}", hex(reg_before), hex(reg_after), hex(&img))));
                            } else if dev.log != vec![
                                Access { write: false, addr: s.addr, len, bytes: reg_before.to_vec() },
                                Access { write: true, addr: s.addr, len, bytes: img.clone() },
                            ] {
                                bad = Some(("footprint", format!("set_value(): log {}", dev.log_str())));
                            }
                        } else if !matches!(out, Out::Err("InvalidData")) {
                            bad = Some(("out-of-range-accepted", format!("set_value({v}) = {:?}, range [{emin},{emax}]", out)));
                        } else if dev.writes() != 0 || reg_after != reg_before {
                            bad = Some(("write-on-refusal", format!("refused set_value({v}) wrote: {}", dev.log_str())));
                        }
                    }
                }
            }
            if let Some((kind, what)) = bad {
                self.rep.count(&format!("viol/{kind}/len{}/{}/w{}/m{}", s.len, if s.signed { "s" } else { "u" }, wd, m));
                self.rep.violation(Self::sig(&s, kind), &what, replay);
            }
        } else {
            self.rep.count("malformed-description(no oracle)");
        }
        if self.rep.evaluations % 30011 == 1 {
            self.rep.sample(json!({"request": req, "impl": ans}));
        }
        if s.group.is_some() && !s.shared_masked {
            // StructReg entry: the model additionally gets the WHOLE StructReg (address, length,
            // byte order of the StructReg element; LSB/MSB/Bit and Sign of every entry in document
            // order) and performs the entry -> MaskedIntReg expansion itself
            // (Model/BitMaskStruct.lean `intoMaskedIntRegs`); same expected answer.
            let specs = &self.w.specs;
            let same = |t: &Spec| t.group == s.group && !t.shared_masked;
            let mut lo = idx;
            while lo > 0 && same(&specs[lo - 1]) {
                lo -= 1;
            }
            let mut hi = idx + 1;
            while hi < specs.len() && same(&specs[hi]) {
                hi += 1;
            }
            let head = &specs[lo];
            let ents = specs[lo..hi]
                .iter()
                .map(|t| format!("{}:{}:{}:{}", if t.bit_form { "b" } else { "r" }, t.lsb, t.msb, if t.signed { "s" } else { "u" }))
                .collect::<Vec<_>>()
                .join(",");
            let sreq = format!(
                "c02 s{opname} {} {} {} {} {} {} {} {ents} {arg}",
                profile(), head.len, if head.be { "be" } else { "le" }, head.addr, before.base, hex(&before.img), idx - lo
            );
            self.rep.count("struct-expansion-by-model");
            self.rep.expect(sreq, ans.clone());
        }
        self.rep.expect(req, ans);
        if self.rep.evaluations % 200_000 == 0 {
            let c = self.camdrv.clone();
            self.rep.flush_model(&c);
        }
        out
    }

    /// write then read back on the same device; read-back oracle
    fn set_and_readback(&mut self, idx: usize, v: i64, reg: &[u8], rng: &mut Rng, src: &str) {
        let mut dev = self.dev_for(idx, reg, rng);
        let o = self.case(idx, Op::Set(v), &mut dev, src);
        if o != Out::Unit {
            return;
        }
        let o2 = self.case(idx, Op::Value, &mut dev, src);
        let s = self.w.specs[idx].clone();
        if s.norm().is_some() && o2 != Out::Int(v) {
            let (l, m) = s.norm().unwrap();
            self.rep.count(&format!("viol/readback/len{}/{}/w{}/m{}", s.len, if s.signed { "s" } else { "u" }, m - l + 1, m));
            self.rep.violation(
                Self::sig(&s, "readback"),
                &format!("set_value({v}) accepted on {}, value() = {:?}", hex(reg), o2),
                json!({"spec": {"len": s.len, "be": s.be, "signed": s.signed, "lsb": s.lsb.to_string(), "msb": s.msb.to_string(), "bit_form": s.bit_form, "addr": s.addr.to_string(), "struct_entry": s.group.is_some() && !s.shared_masked},
                       "op": "roundtrip", "arg": v.to_string(), "img": hex(&dev.img)}),
            );
        }
    }
}

fn old_words(len: usize, n_random: usize, rng: &mut Rng) -> Vec<Vec<u8>> {
    let mut v = vec![vec![0u8; len], vec![0xffu8; len], vec![0xaau8; len], vec![0x55u8; len]];
    let mut t = vec![0u8; len];
    t[0] = 0x80;
    v.push(t.clone());
    t[0] = 0;
    t[len - 1] = 0x80;
    v.push(t);
    for _ in 0..n_random {
        v.push(rng.bytes(len));
    }
    v
}


/// random partition of a `len`-byte register into disjoint fields (raw lsb, raw msb, Bit form, signed)
fn gen_partition(rng: &mut Rng, len: u64, be: bool) -> Vec<(u64, u64, bool, bool)> {
    let bits = 8 * len;
    let mut out = vec![];
    let mut pos = 0u64;
    while pos < bits {
        if rng.chance(1, 4) {
            pos += rng.below(4);
            if pos >= bits {
                break;
            }
        }
        let maxw = bits - pos;
        let w = match rng.below(5) {
            0 => 1,
            1 => 1 + rng.below(maxw.min(8)),
            2 => 1 + rng.below(maxw.min(16)),
            3 => maxw,
            _ => 1 + rng.below(maxw),
        };
        let (l, m) = (pos, pos + w - 1);
        let (lsb, msb) = if be { (bits - 1 - l, bits - 1 - m) } else { (l, m) };
        out.push((lsb, msb, w == 1 && rng.bool(), rng.bool()));
        pos += w;
    }
    if out.is_empty() {
        out.push((if be { bits - 1 } else { 0 }, if be { bits - 1 } else { 0 }, false, false));
    }
    out
}

// ---------- second pass: sibling fields with CACHING ON ----------
// The statement's quantifier: "with caching on, siblings are declared as each other's
// invalidators".  Built with the DEFAULT cache store; every field lists its siblings as
// <pInvalidator>.  Implementation-only oracles (no model: the cache layer is C04's model):
// after any interleaving of reads and writes every field reads its last accepted value, the
// DEVICE word holds every field's expected value, bits outside written fields and bytes
// outside the register are the initial ones.

#[derive(Clone, Debug)]
struct CField {
    lsb: u64,
    msb: u64,
    bit_form: bool,
    signed: bool,
    /// per-field caching mode: "" (inherit / default), "WriteThrough", "WriteAround", "NoCache"
    cachable: String,
}

#[derive(Clone, Debug)]
struct CGroup {
    len: usize,
    be: bool,
    addr: i64,
    /// StructReg entries (true) or separate MaskedIntReg nodes sharing the address (false)
    struct_form: bool,
    /// caching mode of the StructReg element itself: "" (default = WriteThrough), "WriteThrough", "WriteAround", "NoCache"
    cachable: String,
    fields: Vec<CField>,
}

#[derive(Clone, Debug)]
enum COp {
    Read(usize),
    Write(usize, i64),
    /// raw `IRegister::write` of the whole shared word through field j's node
    RawWrite(usize, Vec<u8>),
    /// set_value while the device answers its next WRITE with a one-shot fault: refused (nothing
    /// applied), applied but reported failed (lost acknowledge), or partially applied
    FaultWrite(usize, i64, WriteFault),
    /// value() / the old-word read of a later write while the device fails its next READ once
    FaultRead(usize, ReadFault),
}

impl CGroup {
    fn norm(&self, f: &CField) -> (u32, u32) {
        let bits = 8 * self.len as u64;
        let (l, m) = if self.be { (bits - 1 - f.lsb, bits - 1 - f.msb) } else { (f.lsb, f.msb) };
        (l as u32, m as u32)
    }
    /// effective caching mode of field j
    fn mode(&self, j: usize) -> &str {
        let f = &self.fields[j].cachable;
        let m = if !f.is_empty() { f.as_str() } else if self.struct_form { self.cachable.as_str() } else { "" };
        if m.is_empty() { "WriteThrough" } else { m }
    }
    fn xml(&self) -> String {
        let e = if self.be { "BigEndian" } else { "LittleEndian" };
        let cach = |c: &str| if c.is_empty() { String::new() } else { format!("<Cachable>{c}</Cachable>") };
        let mask = |f: &CField| if f.bit_form { format!("<Bit>{}</Bit>", f.lsb) } else { format!("<LSB>{}</LSB><MSB>{}</MSB>", f.lsb, f.msb) };
        let inval = |j: usize| -> String { (0..self.fields.len()).filter(|k| *k != j).map(|k| format!("<pInvalidator>F{k}</pInvalidator>")).collect() };
        let mut x = String::from(XML_HEAD);
        if self.struct_form {
            x += &format!("<StructReg Comment=\"shared\"><Address>{}</Address><Length>{}</Length><AccessMode>RW</AccessMode><pPort>Device</pPort>{}<Endianess>{e}</Endianess>\n", self.addr, self.len, cach(&self.cachable));
            for (j, f) in self.fields.iter().enumerate() {
                x += &format!("  <StructEntry Name=\"F{j}\">{}<AccessMode>RW</AccessMode>{}{}<Sign>{}</Sign></StructEntry>\n",
                    inval(j), cach(&f.cachable), mask(f), if f.signed { "Signed" } else { "Unsigned" });
            }
            x += "</StructReg>\n";
        } else {
            for (j, f) in self.fields.iter().enumerate() {
                x += &format!("<MaskedIntReg Name=\"F{j}\"><Address>{}</Address><Length>{}</Length><AccessMode>RW</AccessMode><pPort>Device</pPort>{}{}{}<Sign>{}</Sign><Endianess>{e}</Endianess></MaskedIntReg>\n",
                    self.addr, self.len, cach(&f.cachable), inval(j), mask(f), if f.signed { "Signed" } else { "Unsigned" });
            }
        }
        x += XML_TAIL;
        x
    }
    fn to_json(&self, reg0: &[u8], ops: &[COp]) -> Value {
        json!({"cached": {
            "len": self.len, "be": self.be, "addr": self.addr.to_string(), "struct_form": self.struct_form, "cachable": self.cachable,
            "fields": self.fields.iter().map(|f| json!({"lsb": f.lsb, "msb": f.msb, "bit_form": f.bit_form, "signed": f.signed, "cachable": f.cachable})).collect::<Vec<_>>(),
            "reg0": hex(reg0),
            "ops": ops.iter().map(|o| match o {
                COp::Read(j) => json!(["r", j, "0"]),
                COp::Write(j, v) => json!(["w", j, v.to_string()]),
                COp::RawWrite(j, b) => json!(["raw", j, hex(b)]),
                COp::FaultWrite(j, v, f) => json!([match f { WriteFault::Refuse => "refused-w".to_string(), WriteFault::LostAck => "lostack-w".to_string(), WriteFault::Partial(k) => format!("partial-w:{k}") }, j, v.to_string()]),
                COp::FaultRead(j, f) => json!([match f { ReadFault::Refuse => "refused-r", ReadFault::FilledThenFail => "filled-fail-r", ReadFault::GarbageThenFail => "garbage-fail-r" }, j, "0"]),
            }).collect::<Vec<_>>(),
        }})
    }
    fn from_json(v: &Value) -> (CGroup, Vec<u8>, Vec<COp>) {
        let c = &v["cached"];
        let g = CGroup {
            len: c["len"].as_u64().unwrap() as usize,
            be: c["be"].as_bool().unwrap(),
            addr: c["addr"].as_str().unwrap().parse().unwrap(),
            struct_form: c["struct_form"].as_bool().unwrap(),
            cachable: c["cachable"].as_str().unwrap().to_string(),
            fields: c["fields"].as_array().unwrap().iter().map(|f| CField {
                lsb: f["lsb"].as_u64().unwrap(), msb: f["msb"].as_u64().unwrap(),
                bit_form: f["bit_form"].as_bool().unwrap(), signed: f["signed"].as_bool().unwrap(),
                cachable: f["cachable"].as_str().unwrap_or("").to_string() }).collect(),
        };
        let ops = c["ops"].as_array().unwrap().iter().map(|o| {
            let j = o[1].as_u64().unwrap() as usize;
            let a = o[2].as_str().unwrap();
            match o[0].as_str().unwrap() {
                "r" => COp::Read(j),
                "raw" => COp::RawWrite(j, unhex(a)),
                "refused-w" => COp::FaultWrite(j, a.parse().unwrap(), WriteFault::Refuse),
                "lostack-w" => COp::FaultWrite(j, a.parse().unwrap(), WriteFault::LostAck),
                "refused-r" => COp::FaultRead(j, ReadFault::Refuse),
                "filled-fail-r" => COp::FaultRead(j, ReadFault::FilledThenFail),
                "garbage-fail-r" => COp::FaultRead(j, ReadFault::GarbageThenFail),
                t if t.starts_with("partial-w:") => COp::FaultWrite(j, a.parse().unwrap(), WriteFault::Partial(t["partial-w:".len()..].parse().unwrap())),
                _ => COp::Write(j, a.parse().unwrap()),
            }
        }).collect();
        (g, unhex(c["reg0"].as_str().unwrap()), ops)
    }
}

/// Run one history on one cached sibling group; returns false when a violation was reported.
fn run_cached_group(rep: &mut Report, g: &CGroup, reg0: &[u8], ops: &[COp], src: &str) -> bool {
    let xml = g.xml();
    let (_, store, mut cx) = GenApiBuilder::<DefaultNodeStore>::default().build(&xml).expect("generated XML parses");
    let ids: Vec<NodeId> = (0..g.fields.len()).map(|j| store.id_by_name(format!("F{j}")).expect("node present")).collect();
    let mut img = vec![0x11u8; PAD];
    img.extend_from_slice(reg0);
    img.extend(vec![0x22u8; PAD]);
    let mut dev = RecDevice::new(g.addr - PAD as i64, img.clone(), vec![]);
    // the word the device must hold: initial content, merged by every accepted write, replaced by raw writes
    let mut model: u128 = word_of(reg0, g.be);
    let form = if g.struct_form { "struct-entries" } else { "masked-sharing-address" };
    let mixed = g.fields.iter().any(|f| !f.cachable.is_empty());
    let sig = |kind: &str, j: usize| {
        let f = &g.fields[j];
        let (l, m) = g.norm(f);
        json!({"kind": kind, "cached": true, "form": form, "cachable": g.mode(j), "mixed_modes": mixed, "len": g.len, "be": g.be, "signed": f.signed, "width": m - l + 1})
    };
    for (step, op) in ops.iter().enumerate() {
        let j = match op { COp::Read(j) | COp::Write(j, _) | COp::RawWrite(j, _) | COp::FaultWrite(j, _, _) | COp::FaultRead(j, _) => *j };
        let f = &g.fields[j];
        let (l, m) = g.norm(f);
        let (emin, emax) = exp_range(m - l + 1, f.signed);
        let nid = ids[j];
        dev.log.clear();
        let before_writes = dev.writes();
        let reg_before = dev.img[PAD..PAD + g.len].to_vec();
        let refusing = matches!(op, COp::FaultWrite(..) | COp::FaultRead(..));
        match op {
            COp::FaultWrite(_, _, f) => dev.next_write_fault = Some(*f),
            COp::FaultRead(_, f) => dev.next_read_fault = Some(*f),
            _ => {}
        }
        let out = {
            let (store, cx, dev) = (&store, &mut cx, &mut dev);
            match catch(|| -> Result<Out, cameleon_genapi::GenApiError> {
                Ok(match op {
                    COp::Read(_) | COp::FaultRead(..) => Out::Int(nid.expect_iinteger_kind(store)?.value(dev, store, cx)?),
                    COp::Write(_, v) | COp::FaultWrite(_, v, _) => { nid.expect_iinteger_kind(store)?.set_value(*v, dev, store, cx)?; Out::Unit }
                    COp::RawWrite(_, b) => { nid.expect_iregister_kind(store)?.write(b, dev, store, cx)?; Out::Unit }
                })
            }) { Err(()) => Out::Panic, Ok(Err(e)) => Out::Err(err_name(&e)), Ok(Ok(o)) => o }
        };
        let fault_fired = (matches!(op, COp::FaultWrite(..)) && dev.next_write_fault.take().is_none()) || (matches!(op, COp::FaultRead(..)) && dev.next_read_fault.take().is_none());
        dev.next_write_fault = None;
        dev.next_read_fault = None;
        let canon = format!("cached {form} {} {} {} {:?} {:?} {}", g.len, g.be, g.cachable, g.fields, op, hex(&reg_before));
        rep.case(&canon, !refusing && !matches!(out, Out::Err(_) | Out::Panic));
        rep.count(&format!("cached/{form}/{}", match op { COp::Read(_) => "value", COp::Write(..) => "set", COp::RawWrite(..) => "raw-write-of-shared-word", COp::FaultWrite(_, _, WriteFault::Refuse) => "set/write-refused", COp::FaultWrite(_, _, WriteFault::LostAck) => "set/write-applied-but-reported-failed", COp::FaultWrite(..) => "set/write-partially-applied", COp::FaultRead(..) => "value/one-shot-read-fault" }));
        rep.count(&format!("cached/field-mode-{}", g.mode(j)));
        if mixed {
            rep.count("cached/group-with-mixed-modes");
        }
        let expected = |jj: usize, model: u128| -> i64 {
            let ff = &g.fields[jj];
            let (lo, mo) = g.norm(ff);
            exp_value(model, lo, mo - lo + 1, ff.signed)
        };
        let mut bad: Option<(&str, String)> = None;
        if out == Out::Panic {
            bad = Some(("panic", format!("step {step} {:?} panicked", op)));
        } else {
            match op {
                COp::Read(_) => {
                    let e = expected(j, model);
                    if out != Out::Int(e) {
                        bad = Some(("sibling-disturbed", format!("step {step}: value() of field {l}..{m} = {:?}, expected {e} (caching on)", out)));
                    } else if g.mode(j) == "NoCache" && dev.log != vec![Access { write: false, addr: g.addr, len: g.len, bytes: reg_before.clone() }] {
                        bad = Some(("footprint", format!("step {step}: value() of a NoCache field must be one device read: {}", dev.log_str())));
                    }
                }
                COp::FaultRead(..) => {
                    // either the device error, or served from the cache (then no access happened and it must be right)
                    if let Out::Int(x) = out {
                        if fault_fired {
                            bad = Some(("fault-swallowed", format!("step {step}: the device failed the read but value() = {x}")));
                        } else if g.mode(j) == "NoCache" {
                            bad = Some(("ok-without-device-access", format!("step {step}: NoCache field read {x} without a device read")));
                        } else if x != expected(j, model) {
                            bad = Some(("sibling-disturbed", format!("step {step}: cached value() of field {l}..{m} = {x}, expected {}", expected(j, model))));
                        }
                    } else if !matches!(out, Out::Err("Device")) {
                        bad = Some(("not-refused", format!("step {step}: value() on a failing read = {:?}", out)));
                    }
                    if bad.is_none() && !dev.log.is_empty() {
                        bad = Some(("footprint", format!("step {step}: access logged although the read failed: {}", dev.log_str())));
                    }
                }
                COp::Write(_, v) => {
                    if *v >= emin && *v <= emax {
                        if out != Out::Unit {
                            bad = Some(("in-range-refused", format!("step {step}: set_value({v}) = {:?}", out)));
                        } else {
                            let fmask = ((1u128 << (m - l + 1)) - 1) << l;
                            model = (model & !fmask) | (((*v as i128 as u128) << l) & fmask);
                            // exactly one device write of the whole register (the read may come from the cache)
                            let w: Vec<&Access> = dev.log.iter().filter(|a| a.write).collect();
                            if w.len() != 1 || w[0].addr != g.addr || w[0].len != g.len {
                                bad = Some(("footprint", format!("step {step}: accepted set_value({v}) must be exactly one device write of the register: {}", dev.log_str())));
                            }
                        }
                    } else if !matches!(out, Out::Err("InvalidData")) {
                        bad = Some(("out-of-range-accepted", format!("step {step}: set_value({v}) = {:?}, range [{emin},{emax}]", out)));
                    } else if dev.writes() != before_writes || dev.img[PAD..PAD + g.len] != reg_before[..] {
                        bad = Some(("write-on-refusal", format!("step {step}: refused set_value({v}) wrote to the device")));
                    }
                }
                COp::FaultWrite(_, v, fault) => {
                    if *v >= emin && *v <= emax {
                        if !matches!(out, Out::Err("Device")) {
                            bad = Some(("not-refused", format!("step {step}: set_value({v}) with a failing device write = {:?}", out)));
                        } else {
                            // the model applies what the device applied: nothing / the merged word / its first k bytes
                            let fmask = ((1u128 << (m - l + 1)) - 1) << l;
                            let merged = (model & !fmask) | (((*v as i128 as u128) << l) & fmask);
                            let k = match fault { WriteFault::Refuse => 0, WriteFault::LostAck => g.len, WriteFault::Partial(k) => (*k).min(g.len) };
                            let new_bytes = bytes_of(merged & ((1u128 << (8 * g.len)) - 1), g.len, g.be);
                            let old_bytes = bytes_of(model & ((1u128 << (8 * g.len)) - 1), g.len, g.be);
                            let mut now = old_bytes.clone();
                            now[..k].copy_from_slice(&new_bytes[..k]);
                            model = word_of(&now, g.be);
                            // from here on the own and the sibling caches must be treated as invalid: checked by
                            // the device-word comparison after every later step
                        }
                    } else if !matches!(out, Out::Err("InvalidData")) {
                        bad = Some(("out-of-range-accepted", format!("step {step}: set_value({v}) = {:?}, range [{emin},{emax}]", out)));
                    } else if fault_fired || dev.writes() != before_writes || dev.img[PAD..PAD + g.len] != reg_before[..] {
                        bad = Some(("write-on-refusal", format!("step {step}: refused set_value({v}) reached the device: {}", dev.log_str())));
                    }
                }
                COp::RawWrite(_, b) => {
                    if out != Out::Unit || dev.log != vec![Access { write: true, addr: g.addr, len: g.len, bytes: b.clone() }] {
                        bad = Some(("raw-write", format!("step {step}: raw write of the shared word = {:?}, log {}", out, dev.log_str())));
                    } else {
                        model = word_of(b, g.be);
                    }
                }
            }
        }
        if bad.is_none() {
            // the DEVICE word (uncached view) is exactly the expected word
            let cur = word_of(&dev.img[PAD..PAD + g.len], g.be);
            if cur != model {
                let mut kind = "history-bits-outside-written-fields-changed";
                let mut what = format!("step {step} {:?}: the device word is {cur:x}, expected {model:x} (bits outside every field differ)", op);
                for jj in 0..g.fields.len() {
                    let (lo, mo) = g.norm(&g.fields[jj]);
                    let (on_dev, e) = (expected(jj, cur), expected(jj, model));
                    if on_dev != e {
                        kind = "sibling-disturbed";
                        what = format!("step {step} {:?}: on the device field {lo}..{mo} holds {on_dev}, expected {e} (a sibling's read-modify-write used a stale word?)", op);
                        break;
                    }
                }
                bad = Some((kind, what));
            }
            if bad.is_none() && (dev.img[..PAD] != img[..PAD] || dev.img[PAD + g.len..] != img[PAD + g.len..] || !dev.outside.is_empty()) {
                bad = Some(("frame", format!("step {step}: bytes outside the register changed")));
            }
        }
        if let Some((kind, what)) = bad {
            rep.count(&format!("viol/cached/{kind}"));
            rep.violation(sig(kind, j), &what, g.to_json(reg0, &ops[..=step]));
            let _ = src;
            return false;
        }
    }
    true
}

fn cached_sibling_pass(rep: &mut Report, rng: &mut Rng, thorough: bool) {
    let addrs: [i64; 4] = [0x200, 6, 0x7fff_ffff_ffff_f000, -32];
    let modes = ["", "WriteThrough", "WriteAround", "NoCache"];
    let n_groups = if thorough { 1500 } else { 300 };
    for gi in 0..n_groups {
        let len = *rng.pick(&[1u64, 2, 4, 8]);
        let be = rng.bool();
        // half of the groups draw the caching mode PER FIELD (incl. NoCache siblings), the others share one mode
        let per_field = gi % 2 == 1;
        let fields: Vec<CField> = gen_partition(rng, len, be).into_iter().map(|(lsb, msb, bit_form, signed)| CField {
            lsb, msb, bit_form, signed, cachable: if per_field { modes[rng.below(4) as usize].to_string() } else { String::new() } }).collect();
        let g = CGroup {
            len: len as usize, be, addr: addrs[gi % addrs.len()], struct_form: (gi / 2) % 2 == 0,
            cachable: if per_field && rng.bool() { String::new() } else { modes[(gi / 4) % 4].to_string() }, fields,
        };
        // shared-mode groups of separate MaskedIntReg nodes: put the mode on every node
        let g = if !g.struct_form && !per_field {
            let c = g.cachable.clone();
            CGroup { fields: g.fields.iter().map(|f| CField { cachable: c.clone(), ..f.clone() }).collect(), ..g }
        } else { g };
        let reg0 = if gi % 3 == 0 { vec![0xff; g.len] } else { rng.bytes(g.len) };
        let steps = if thorough { 60 } else { 30 };
        let mut ops = vec![];
        for _ in 0..steps {
            let j = rng.below(g.fields.len() as u64) as usize;
            let (l, m) = g.norm(&g.fields[j]);
            let (emin, emax) = exp_range(m - l + 1, g.fields[j].signed);
            let mut val = |rng: &mut Rng| match rng.below(7) {
                0 => emin,
                1 => emax,
                2 => emax.wrapping_add(1),
                _ => {
                    let span = (emax as i128 - emin as i128 + 1) as u128;
                    (emin as i128 + (rng.next_u64() as u128 % span) as i128) as i64
                }
            };
            match rng.below(20) {
                0..=5 => ops.push(COp::Read(j)),
                6 => ops.push(COp::RawWrite(j, rng.bytes(g.len))),
                7 | 9 => {
                    let v = val(rng);
                    let f = match rng.below(4) { 0 => WriteFault::Refuse, 1 | 2 => WriteFault::LostAck, _ => WriteFault::Partial(rng.below(g.len as u64 + 1) as usize) };
                    // warm the caches first (every field read once), then the faulty write, then the siblings
                    if rng.bool() {
                        for jj in 0..g.fields.len() { ops.push(COp::Read(jj)); }
                    }
                    ops.push(COp::FaultWrite(j, v, f));
                    let sib = rng.below(g.fields.len() as u64) as usize;
                    let (ls, ms) = g.norm(&g.fields[sib]);
                    let (smin, smax) = exp_range(ms - ls + 1, g.fields[sib].signed);
                    ops.push(COp::Write(sib, if rng.bool() { smin } else { smax }));
                }
                8 => {
                    ops.push(COp::FaultRead(j, *rng.pick(&[ReadFault::Refuse, ReadFault::FilledThenFail, ReadFault::GarbageThenFail])));
                    ops.push(COp::Read(j));
                }
                _ => { let v = val(rng); ops.push(COp::Write(j, v)) }
            }
        }
        run_cached_group(rep, &g, &reg0, &ops, "cached-siblings");
    }
    // the interleaving of the demo: fixed three-field 16-bit register, both forms, both byte orders
    for struct_form in [true, false] {
        for be in [false, true] {
            let raw = |l: u64, m: u64| if be { (15 - l, 15 - m) } else { (l, m) };
            let fields = [(0u64, 3u64), (4, 11), (12, 15)].iter().map(|&(l, m)| { let (lsb, msb) = raw(l, m); CField { lsb, msb, bit_form: false, signed: false, cachable: String::new() } }).collect();
            let g = CGroup { len: 2, be, addr: 0x200, struct_form, cachable: String::new(), fields };
            let ops = vec![COp::Read(0), COp::Write(1, 0x5a), COp::Write(0, 3), COp::Read(1), COp::Write(2, 9), COp::Write(1, 1), COp::Read(0), COp::Read(2), COp::Write(0, 16), COp::Read(1)];
            run_cached_group(rep, &g, &[0xc3, 0xa5], &ops, "cached-siblings-fixed");
        }
    }
}

fn main() {
    let args = parse_args();
    let mut rng = Rng::new(args.seed);
    let thorough = args.thorough();
    let rep = Report::new(
        "C02",
        "real MaskedIntReg nodes / StructReg entries parsed from generated XML for every (length in {1,2,4,8}, lsb, msb within the register) x byte order x sign, single-Bit form, malformed descriptions; min/max on every node; exhaustive in-range values (+ out-of-range neighbours) SUBSAMPLED BY NODE: quick = every value for widths <= 4 on all nodes, widths <= 8 on 1/8 of the nodes, widths <= 16 on 1/512 of the nodes; thorough = widths <= 10 on all nodes, widths <= 16 on 1/4 of the nodes; all other (node, width) pairs get boundary + random values (the universal claim over values is carried by the theorems); boundary/random prior register contents; set_value followed by value() on the same device; sibling write histories (uncached, compared with the model) on shared registers realised as StructReg entries AND as separate MaskedIntReg nodes sharing an address; second pass with CACHING ON (default cache store, default/WriteThrough/WriteAround, every field naming its siblings as pInvalidator, both realisations) under implementation-only oracles (every field reads its last accepted value, the device word holds every field's expected value, bits outside written fields and bytes outside the register unchanged); a case is non-trivial when the call succeeds (min/max excluded); distinct by (description, register bytes, op, argument), not by the pad bytes or the address; cached pass: per-field Cachable incl. NoCache siblings in half of the groups, raw IRegister::write of the shared word, device faults on warm caches (write refused / applied but reported failed / partially applied, one-shot read faults) followed by sibling writes and reads",
    );

    // ----- replay / corpus -----
    fn replay_one(rp: &Value, rep: Report, camdrv: &str, rng: &mut Rng, src: &str) -> Report {
        if rp.get("cached").is_some() {
            let mut rep = rep;
            let (g, reg0, ops) = CGroup::from_json(rp);
            run_cached_group(&mut rep, &g, &reg0, &ops, src);
            return rep;
        }
        let sp = &rp["spec"];
        let spec = Spec {
            name: "Replay".into(),
            len: sp["len"].as_i64().unwrap(),
            be: sp["be"].as_bool().unwrap(),
            signed: sp["signed"].as_bool().unwrap(),
            lsb: sp["lsb"].as_str().unwrap().parse().unwrap(),
            msb: sp["msb"].as_str().unwrap().parse().unwrap(),
            bit_form: sp["bit_form"].as_bool().unwrap(),
            addr: sp["addr"].as_str().unwrap().parse().unwrap(),
            group: if sp["struct_entry"].as_bool().unwrap() { Some(0) } else { None },
            shared_masked: false,
        };
        let mut r = Runner { w: build(vec![spec.clone()]), rep, camdrv: camdrv.to_string() };
        let img = unhex(rp["img"].as_str().unwrap());
        let mut dev = RecDevice::new(spec.addr - PAD as i64, img.clone(), vec![]);
        let arg = rp["arg"].as_str().unwrap();
        match rp["op"].as_str().unwrap() {
            "min" => { r.case(0, Op::Min, &mut dev, src); }
            "max" => { r.case(0, Op::Max, &mut dev, src); }
            "value" => { r.case(0, Op::Value, &mut dev, src); }
            "set" => { r.case(0, Op::Set(arg.parse().unwrap()), &mut dev, src); }
            "roundtrip" => {
                let len = spec.len.max(0) as usize;
                r.set_and_readback(0, arg.parse().unwrap(), &img[PAD..PAD + len], rng, src);
            }
            other => panic!("unknown replay op {other}"),
        }
        r.rep
    }
    if let Some(path) = &args.replay {
        let v: Value = serde_json::from_str(&std::fs::read_to_string(path).unwrap()).unwrap();
        let mut rep = replay_one(&v["replay"], rep, &args.camdrv, &mut rng, "replay");
        rep.write(&args);
        return;
    }
    // minimised past failures first
    let mut rep = rep;
    let mut corpus: Vec<_> = std::fs::read_dir("/verif/corpus/C02").map(|d| d.filter_map(|e| e.ok()).map(|e| e.path()).collect()).unwrap_or_default();
    corpus.sort();
    for pth in corpus {
        if pth.extension().map_or(false, |e| e == "json") {
            let v: Value = serde_json::from_str(&std::fs::read_to_string(&pth).unwrap()).unwrap();
            rep = replay_one(&v["replay"], rep, &args.camdrv, &mut rng, "corpus");
        }
    }

    // ----- node table -----
    let addrs: [i64; 5] = [0x40, 2, 0x10000, 0x7fff_ffff_ffff_f000, -32];
    let mut specs: Vec<Spec> = vec![];
    let mut k = 0usize;
    // every well-formed range, both byte orders, both signs
    for len in [1i64, 2, 4, 8] {
        let bits = 8 * len as u64;
        for l in 0..bits {
            for m in l..bits {
                for be in [false, true] {
                    for signed in [false, true] {
                        k += 1;
                        let (lsb, msb) = if be { (bits - 1 - l, bits - 1 - m) } else { (l, m) };
                        specs.push(Spec { name: format!("M{}", specs.len()), len, be, signed, lsb, msb, bit_form: false, addr: addrs[k % addrs.len()], group: None, shared_masked: false });
                    }
                }
            }
        }
        // single-bit form
        for b in 0..bits {
            for be in [false, true] {
                for signed in [false, true] {
                    k += 1;
                    specs.push(Spec { name: format!("M{}", specs.len()), len, be, signed, lsb: b, msb: b, bit_form: true, addr: addrs[k % addrs.len()], group: None, shared_masked: false });
                }
            }
        }
    }
    let n_wellformed = specs.len();
    // malformed descriptions (compared with the model only)
    for (len, lsb, msb, bit) in [
        (1i64, 5u64, 3u64, false), (1, 0, 8, false), (1, 8, 8, true), (2, 15, 16, false), (2, 9, 3, false), (4, 31, 0, false),
        (4, 0, 32, false), (4, 32, 32, true), (8, 0, 64, false), (8, 64, 64, true), (8, 63, 0, false), (8, 1, u64::MAX, false),
        (8, u64::MAX, u64::MAX, true), (4, 100, 100, true), (3, 0, 7, false), (0, 0, 0, true), (16, 0, 7, false), (5, 8, 15, false), (-1, 0, 3, false),
    ] {
        for be in [false, true] {
            for signed in [false, true] {
                k += 1;
                specs.push(Spec { name: format!("M{}", specs.len()), len, be, signed, lsb, msb, bit_form: bit, addr: addrs[k % addrs.len()], group: None, shared_masked: false });
            }
        }
    }
    let n_single = specs.len();
    // StructReg groups: random partitions of a register into disjoint fields
    let mut groups: Vec<Vec<usize>> = vec![];
    let n_groups = if thorough { 1500 } else { 300 };
    for g in 0..n_groups {
        let len = *rng.pick(&[1i64, 2, 4, 8]);
        let be = rng.bool();
        let addr = addrs[g % addrs.len()];
        let shared_masked = g % 2 == 1;
        let mut members = vec![];
        for (lsb, msb, bit_form, signed) in gen_partition(&mut rng, len as u64, be) {
            members.push(specs.len());
            specs.push(Spec { name: format!("E{}_{}", g, members.len()), len, be, signed, lsb, msb, bit_form, addr, group: Some(g), shared_masked });
        }
        groups.push(members);
    }
    let w = build(specs);
    let mut r = Runner { w, rep, camdrv: args.camdrv.clone() };
    r.rep.extra.insert("nodes".into(), json!({"wellformed_masked": n_wellformed, "malformed": n_single - n_wellformed, "struct_entries": r.w.specs.len() - n_single, "struct_regs": groups.len()}));

    // ----- every node: min, max, values -----
    for idx in 0..n_single {
        let s = r.w.specs[idx].clone();
        let len = s.len.max(0) as usize;
        let mut d0 = r.dev_for(idx, &vec![0x5a; len], &mut rng);
        r.case(idx, Op::Min, &mut d0, "minmax");
        r.case(idx, Op::Max, &mut d0, "minmax");
        let Some((l, m)) = s.norm() else {
            // malformed: compare behaviour with the model on a few calls
            for v in [0i64, 1, -1] {
                let reg = rng.bytes(len);
                r.set_and_readback(idx, v, &reg, &mut rng, "malformed");
            }
            let reg = rng.bytes(len);
            let mut d = r.dev_for(idx, &reg, &mut rng);
            r.case(idx, Op::Value, &mut d, "malformed");
            continue;
        };
        let wd = m - l + 1;
        let (emin, emax) = exp_range(wd, s.signed);
        // value() on boundary + random register contents
        for reg in old_words(len, if thorough { 6 } else { 2 }, &mut rng) {
            let mut d = r.dev_for(idx, &reg, &mut rng);
            r.case(idx, Op::Value, &mut d, "value-images");
        }
        // values to write
        let exhaustive = if thorough { wd <= 16 && (wd <= 10 || idx % 4 == 0) } else { wd <= 8 && (wd <= 4 || idx % 8 == 0) || (wd <= 16 && idx % 512 == 0) };
        let mut vals: Vec<i64> = vec![];
        if exhaustive {
            vals.extend(emin..=emax);
            vals.extend([emin - 1, emax + 1, emin - 2, emax + 2]);
        } else {
            vals.extend([emin, emax, emin.saturating_add(1), emax.saturating_sub(1), 0, 1, -1, emin / 2, emax / 2]);
            vals.extend([emin.wrapping_sub(1), emax.wrapping_add(1), i64::MIN, i64::MAX]);
            for _ in 0..(if thorough { 6 } else { 2 }) {
                // random in range
                let span = (emax as i128 - emin as i128 + 1) as u128;
                vals.push((emin as i128 + (rng.next_u64() as u128 % span) as i128) as i64);
                vals.push(rng.interesting_i64());
            }
        }
        let olds = old_words(len, 1, &mut rng);
        for (j, v) in vals.iter().enumerate() {
            // exhaustive sweeps rotate through the prior contents, the others use several
            let n_old = if exhaustive { 1 } else if thorough { 3 } else { 1 + (idx % 2) };
            for t in 0..n_old {
                let reg = if t == 0 && j % 3 == 0 { rng.bytes(len) } else { olds[(j + t) % olds.len()].clone() };
                r.set_and_readback(idx, *v, &reg, &mut rng, if exhaustive { "set-exhaustive" } else { "set-boundary-random" });
            }
        }
    }

    // ----- sibling histories on shared registers -----
    for (g, members) in groups.clone().iter().enumerate() {
        let s0 = r.w.specs[members[0]].clone();
        let len = s0.len as usize;
        let reg0 = if g % 3 == 0 { vec![0xff; len] } else { rng.bytes(len) };
        let mut dev = r.dev_for(members[0], &reg0, &mut rng);
        for &idx in members {
            let mut d0 = dev.clone();
            r.case(idx, Op::Min, &mut d0, "sibling");
            r.case(idx, Op::Max, &mut d0, "sibling");
        }
        // expectation: each field holds its last written value, other bits initial
        let mut last: Vec<Option<i64>> = vec![None; members.len()];
        let initial = word_of(&reg0, s0.be);
        let steps = if thorough { 30 } else { 14 };
        for _ in 0..steps {
            let j = rng.below(members.len() as u64) as usize;
            let idx = members[j];
            let s = r.w.specs[idx].clone();
            let (l, m) = s.norm().unwrap();
            let (emin, emax) = exp_range(m - l + 1, s.signed);
            let v = match rng.below(6) {
                0 => emin,
                1 => emax,
                2 => emax.wrapping_add(1), // refused: must not disturb anything
                _ => {
                    let span = (emax as i128 - emin as i128 + 1) as u128;
                    (emin as i128 + (rng.next_u64() as u128 % span) as i128) as i64
                }
            };
            let o = r.case(idx, Op::Set(v), &mut dev, "sibling");
            if o == Out::Unit {
                last[j] = Some(v);
            }
            // all siblings read back their last written value / initial content
            for (jj, &other) in members.iter().enumerate() {
                let so = r.w.specs[other].clone();
                let (lo, mo) = so.norm().unwrap();
                let expect = match last[jj] {
                    Some(x) => x,
                    None => exp_value(initial, lo, mo - lo + 1, so.signed),
                };
                let got = r.case(other, Op::Value, &mut dev, "sibling");
                if got != Out::Int(expect) {
                    r.rep.violation(
                        Runner::sig(&so, "sibling-disturbed"),
                        &format!("after set_value({v}) on sibling bits {l}..{m}: field {lo}..{mo} reads {:?}, expected {expect}", got),
                        json!({"spec": {"len": so.len, "be": so.be, "signed": so.signed, "lsb": so.lsb.to_string(), "msb": so.msb.to_string(), "bit_form": so.bit_form, "addr": so.addr.to_string(), "struct_entry": !so.shared_masked},
                               "op": "value", "arg": "-", "img": hex(&dev.img)}),
                    );
                }
            }
            // bits outside every written field are still the initial ones
            let cur = word_of(&dev.img[PAD..PAD + len], s0.be);
            let mut written_mask: u128 = 0;
            for (jj, &other) in members.iter().enumerate() {
                if last[jj].is_some() {
                    let (lo, mo) = r.w.specs[other].norm().unwrap();
                    written_mask |= ((1u128 << (mo - lo + 1)) - 1) << lo;
                }
            }
            if (cur ^ initial) & !written_mask != 0 {
                r.rep.violation(Runner::sig(&s, "history-bits-outside-written-fields-changed"), "register bits outside all written fields differ from the initial content",
                    json!({"spec": {"len": s.len, "be": s.be, "signed": s.signed, "lsb": s.lsb.to_string(), "msb": s.msb.to_string(), "bit_form": s.bit_form, "addr": s.addr.to_string(), "struct_entry": !s.shared_masked},
                           "op": "set", "arg": v.to_string(), "img": hex(&dev.img)}));
            }
        }
    }

    cached_sibling_pass(&mut r.rep, &mut rng, thorough);

    r.rep.write(&args);
}
