//! C06 — device memory transfers are exact for any size under any negotiated limits.
//!
//! The REAL `cameleon::u3v::ControlHandle` runs over the scripted conforming device of
//! `ctrl_common` (memory image, advertised = enforced limits, pending plan).  Per op:
//!  * differential: result / returned data / full wire log / final memory are compared with
//!    the Lean model (`Model/Control.lean` over `Spec/ConformingDevice.lean`'s `refDev`);
//!  * property oracle on the implementation's own outputs: exactness of the data and of the
//!    device memory, every wire packet decoded independently and checked against the limits,
//!    request ids sequential mod 2^16 (pendings reuse the id), footprint = requested range.

#[path = "ctrl_common/mod.rs"]
mod ctrl_common;
use camharness::*;
use cameleon::DeviceControl;
use ctrl_common::*;
use std::sync::Arc;

#[derive(Clone, Debug)]
enum Op {
    Open,
    Close,
    Read { addr: u64, n: usize },
    Write { addr: u64, n: usize, pat: u64 },
    Warm { addr: u64, count: u64 },
    Retry(u16),
    Dev { mc: u32, ma: u32, ms: u16, plan: Vec<u16> },
    /// the device changes what its bootstrap registers advertise (takes effect at the next open)
    Advertise { mc: u32, ma: u32, resp_ms: u32 },
}

#[derive(Clone, Debug)]
struct SessionSpec {
    seed: u64,
    sbrm_addr: u64,
    adv_cmd: u32,
    adv_ack: u32,
    resp_ms: u32,
    ops: Vec<Op>,
    /// compare with the Lean model (false: implementation-side oracle only)
    model: bool,
}

fn op_json(o: &Op) -> Value {
    match o {
        Op::Open => json!({"op": "open"}),
        Op::Close => json!({"op": "close"}),
        Op::Read { addr, n } => json!({"op": "read", "addr": addr.to_string(), "n": n}),
        Op::Write { addr, n, pat } => json!({"op": "write", "addr": addr.to_string(), "n": n, "pat": pat}),
        Op::Warm { addr, count } => json!({"op": "warm", "addr": addr.to_string(), "count": count}),
        Op::Retry(r) => json!({"op": "retry", "n": r}),
        Op::Dev { mc, ma, ms, plan } => json!({"op": "dev", "mc": mc, "ma": ma, "ms": ms, "plan": plan}),
        Op::Advertise { mc, ma, resp_ms } => json!({"op": "advertise", "mc": mc, "ma": ma, "resp_ms": resp_ms}),
    }
}

fn op_from(v: &Value) -> Op {
    let a = |k: &str| v[k].as_str().unwrap().parse::<u64>().unwrap();
    let u = |k: &str| v[k].as_u64().unwrap();
    match v["op"].as_str().unwrap() {
        "open" => Op::Open,
        "close" => Op::Close,
        "read" => Op::Read { addr: a("addr"), n: u("n") as usize },
        "write" => Op::Write { addr: a("addr"), n: u("n") as usize, pat: u("pat") },
        "warm" => Op::Warm { addr: a("addr"), count: u("count") },
        "retry" => Op::Retry(u("n") as u16),
        "advertise" => Op::Advertise { mc: u("mc") as u32, ma: u("ma") as u32, resp_ms: u("resp_ms") as u32 },
        "dev" => Op::Dev {
            mc: u("mc") as u32,
            ma: u("ma") as u32,
            ms: u("ms") as u16,
            plan: v["plan"].as_array().unwrap().iter().map(|x| x.as_u64().unwrap() as u16).collect(),
        },
        other => panic!("unknown op {other}"),
    }
}

fn spec_json(s: &SessionSpec, upto: usize) -> Value {
    json!({
        "seed": s.seed, "sbrm_addr": s.sbrm_addr.to_string(), "adv_cmd": s.adv_cmd, "adv_ack": s.adv_ack,
        "resp_ms": s.resp_ms, "model": s.model,
        "ops": s.ops[..upto.min(s.ops.len())].iter().map(op_json).collect::<Vec<_>>(),
    })
}

fn spec_from(v: &Value) -> SessionSpec {
    SessionSpec {
        seed: v["seed"].as_u64().unwrap(),
        sbrm_addr: v["sbrm_addr"].as_str().unwrap().parse().unwrap(),
        adv_cmd: v["adv_cmd"].as_u64().unwrap() as u32,
        adv_ack: v["adv_ack"].as_u64().unwrap() as u32,
        resp_ms: v["resp_ms"].as_u64().unwrap() as u32,
        model: v["model"].as_bool().unwrap_or(true),
        ops: v["ops"].as_array().unwrap().iter().map(op_from).collect(),
    }
}

/// One command on the wire with everything received for it.
struct Txn {
    cmd: Vec<u8>,
    recvs: Vec<(usize, Result<Vec<u8>, UsbErr>)>,
}

fn split_txns(wire: &[Wire]) -> Vec<Txn> {
    let mut out: Vec<Txn> = vec![];
    for w in wire {
        match w {
            Wire::Send { data, .. } => out.push(Txn { cmd: data.clone(), recvs: vec![] }),
            Wire::Recv { buf_len, res, .. } => {
                if let Some(t) = out.last_mut() {
                    t.recvs.push((*buf_len, res.clone()));
                }
            }
            _ => {}
        }
    }
    out
}

/// Did this transaction complete on the host side (final, successful, matching ack)?
fn completed(t: &Txn) -> bool {
    let (Some(c), Some((_, Ok(p)))) = (decode_cmd(&t.cmd), t.recvs.last()) else { return false };
    match decode_ack(p) {
        Some(a) => a.status == 0 && a.request_id == c.request_id && a.kind == (c.kind | 1),
        None => false,
    }
}

struct Host {
    opened: bool,
    next_id: u16,
    retry: u16,
    cfg_cmd: u32,
    cfg_ack: u32,
    dev_plan: Vec<u16>,
    dev_limits: Option<(u32, u32)>,
}

/// Checks shared by read and write: ids, recv counts, limits.  Returns the decoded commands.
fn check_wire(host: &Host, txns: &[Txn], first_txn_index: u64) -> Result<Vec<CmdInfo>, String> {
    let mut id = host.next_id;
    let mut cmds = vec![];
    for (i, t) in txns.iter().enumerate() {
        let c = decode_cmd(&t.cmd).ok_or_else(|| format!("command #{i} on the wire is not a well-formed command packet"))?;
        if c.flags != 0x4000 {
            return Err(format!("command #{i}: flags {:#x}", c.flags));
        }
        if c.request_id != id {
            return Err(format!("command #{i}: request id {} but {} expected (previous sent command's id + 1 mod 2^16)", c.request_id, id));
        }
        if t.cmd.len() as u64 > host.cfg_cmd as u64 {
            return Err(format!("command #{i}: {} bytes exceed the negotiated maximum command length {}", t.cmd.len(), host.cfg_cmd));
        }
        if let CmdBody::ReadMem { len, .. } = c.body {
            if 12 + len as u64 > host.cfg_ack as u64 {
                return Err(format!("command #{i}: requests {len} bytes, ack would exceed the negotiated maximum ack length {}", host.cfg_ack));
            }
        }
        let idx = first_txn_index + i as u64;
        let k = if host.dev_plan.is_empty() { 0 } else { host.dev_plan[(idx % host.dev_plan.len() as u64) as usize] } as usize;
        if t.recvs.len() != k + 1 {
            return Err(format!("command #{i}: {} receives for {k} pending acks", t.recvs.len()));
        }
        for (j, (buf_len, r)) in t.recvs.iter().enumerate() {
            let p = r.as_ref().map_err(|e| format!("command #{i}: receive #{j} failed with {}", e.name()))?;
            if p.len() > *buf_len {
                return Err(format!("command #{i}: receive buffer {buf_len} smaller than packet {}", p.len()));
            }
            if p.len() as u64 > host.cfg_ack as u64 && host.cfg_ack >= 16 {
                return Err(format!("command #{i}: device packet of {} bytes exceeds maximum ack length", p.len()));
            }
            let a = decode_ack(p).ok_or("undecodable ack")?;
            if a.request_id != id {
                return Err(format!("command #{i}: ack #{j} carries id {} not {}", a.request_id, id));
            }
        }
        id = id.wrapping_add(1);
        cmds.push(c);
    }
    Ok(cmds)
}

struct Run<'a> {
    rep: &'a mut Report,
    spec: &'a SessionSpec,
    usb: Arc<FakeUsb>,
    h: ControlHandle,
    host: Host,
    /// what the device's bootstrap registers advertise right now (command, ack, response time)
    adv: (u32, u32, u32),
    /// number of successful opens so far (the ABRM capability is cached after the first)
    opens: u32,
}

impl<'a> Run<'a> {
    fn line(&mut self, req: String, ans: String) {
        if self.spec.model {
            self.rep.expect(req, ans);
        }
    }

    fn violation(&mut self, kind: &str, what: String, op_index: usize) {
        let spec = spec_json(self.spec, op_index + 1);
        self.rep.violation(json!({"kind": kind, "adv_cmd": self.spec.adv_cmd, "adv_ack": self.spec.adv_ack}), &what, spec);
    }

    /// preconditions of the C06 statement for this op
    fn plan_ok(&self) -> bool {
        let mx = self.host.dev_plan.iter().copied().max().unwrap_or(0);
        mx < self.host.retry && (mx == 0 || self.host.cfg_ack >= 16)
    }

    fn after_op(&mut self, txns: &[Txn]) {
        // the code draws a fresh request id for every command it puts on the wire
        for _ in txns {
            self.host.next_id = self.host.next_id.wrapping_add(1);
        }
    }

    /// checks that hold for EVERY op, inside or outside the exactness preconditions:
    /// the device never saw a command exceeding its limits (it enforces what it advertises),
    /// every bulk transfer was given the timeout in force (the initial 500 ms until `open` has
    /// read the device's response time, that value afterwards), and the call took at least as
    /// long as the pending acknowledges it honoured asked it to wait.
    fn common_checks(&mut self, i: usize, wire: &[Wire], elapsed_ms: u64, timeout_before: u64) {
        let herr = self.usb.lock().take_host_errors();
        if let Some(e) = herr.first() {
            self.violation("host-exceeds-limits", format!("device flagged: {e}"), i);
        }
        for w in wire {
            let t = match w {
                Wire::Send { timeout_ms, .. } | Wire::Recv { timeout_ms, .. } | Wire::Control { timeout_ms, .. } => *timeout_ms,
                _ => continue,
            };
            if t != timeout_before {
                self.violation("timeout", format!("a transfer was given a timeout of {t} ms, the configured one is {timeout_before} ms"), i);
                break;
            }
        }
        if std::mem::take(&mut self.usb.lock().host_blocked) {
            self.violation("host-would-block", "a bulk-in transfer without timeout (0 ms) was started while the device had nothing to deliver".into(), i);
        }
        let st = wire_stat(wire);
        if elapsed_ms < st.sleep_ms {
            self.violation("pending-not-awaited", format!("{} pending acknowledges asked for {} ms in total, the call returned after {elapsed_ms} ms", st.sleeps, st.sleep_ms), i);
        }
        if st.sleep_ms > 0 {
            self.rep.count("ops-with-nonzero-pending-wait");
        }
    }

    fn suffix(&self, wire: &[Wire]) -> String {
        format!("| {} txn={}", wire_stat(wire).show(), self.usb.lock().txn)
    }

    fn step(&mut self, i: usize) {
        let op = self.spec.ops[i].clone();
        let txn0 = self.usb.lock().txn;
        let timeout_before = dur_ms(self.h.timeout_duration()).max(1); // transfer_timeout(): never 0
        let started = std::time::Instant::now();
        match op {
            Op::Open => {
                let r = catch(|| self.h.open().map_err(|e| control_error_name(&e)));
                let elapsed = started.elapsed().as_millis() as u64;
                let wire = self.usb.lock().take_wire();
                let _ = self.usb.lock().take_access();
                self.common_checks(i, &wire, elapsed, timeout_before);
                let txns = split_txns(&wire);
                let ans = match &r {
                    Err(()) => "panic".to_string(),
                    Ok(Err(e)) => format!("err {e}"),
                    Ok(Ok(())) => "ok".to_string(),
                };
                let was_open = self.host.opened;
                if matches!(r, Ok(Ok(()))) && !was_open {
                    self.host.cfg_cmd = self.adv.0;
                    self.host.cfg_ack = self.adv.1;
                }
                if !was_open {
                    self.host.opened = matches!(r, Ok(Ok(())));
                }
                // oracle: against the conforming device (no limits enforced yet) open succeeds,
                // with sequential ids, and negotiates the advertised values
                if !was_open {
                    if !matches!(r, Ok(Ok(()))) {
                        self.violation("open-failed", format!("open against a conforming device: {ans}"), i);
                    } else if let Err(w) = check_wire(&Host { cfg_cmd: 128, cfg_ack: 128, ..self.host_clone() }, &txns, txn0) {
                        self.violation("open-wire", w, i);
                    } else if self.h.timeout_duration().as_millis() as u64 != self.adv.2 as u64 {
                        self.violation("open-config", "timeout not taken from the device".into(), i);
                    } else {
                        // the bootstrap registers are read with the INITIAL 128/128 limits whatever an
                        // earlier connection negotiated: one command per register (the ABRM
                        // capability only at the first open, it is cached)
                        let want: Vec<u16> = if self.opens == 0 { vec![8, 8, 8, 4, 4, 4] } else { vec![8, 8, 4, 4, 4] };
                        let got: Vec<u16> = txns.iter().filter_map(|t| match decode_cmd(&t.cmd).map(|c| c.body) { Some(CmdBody::ReadMem { len, .. }) => Some(len), _ => None }).collect();
                        if got != want {
                            self.violation("open-bootstrap-chunking", format!("bootstrap reads {got:?}, expected {want:?} (initial limits 128/128)"), i);
                        }
                        self.opens += 1;
                    }
                }
                self.rep.case(&format!("open {} {} {} {}", self.adv.0, self.adv.1, self.adv.2, self.opens), true);
                self.rep.count("op:open");
                let cfg = format!(" cfg={}/{}/{}", self.host.cfg_cmd, self.host.cfg_ack, self.h.timeout_duration().as_millis());
                let sfx = self.suffix(&wire);
                self.line("c06 open".into(), format!("{ans} {sfx}{cfg}"));
                self.after_op(&txns);
            }
            Op::Close => {
                let r = catch(|| self.h.close().map_err(|e| control_error_name(&e)));
                let wire = self.usb.lock().take_wire();
                let ans = match &r {
                    Err(()) => "panic".to_string(),
                    Ok(Err(e)) => format!("err {e}"),
                    Ok(Ok(())) => {
                        self.host.opened = false;
                        "ok".to_string()
                    }
                };
                self.rep.count("op:close");
                let sfx = self.suffix(&wire);
                self.line("c06 close".into(), format!("{ans} {sfx}"));
            }
            Op::Retry(r) => {
                self.h.set_retry_count(r);
                self.host.retry = r;
                self.line(format!("c06 retry {r}"), "ok".into());
            }
            Op::Dev { mc, ma, ms, plan } => {
                {
                    let mut st = self.usb.lock();
                    st.cfg.max_cmd = Some(mc);
                    st.cfg.max_ack = Some(ma);
                    st.cfg.pending_timeout_ms = ms;
                    st.cfg.pending_plan = plan.clone();
                }
                self.host.dev_plan = plan.clone();
                self.host.dev_limits = Some((mc, ma));
                let p = if plan.is_empty() { "-".to_string() } else { plan.iter().map(|x| x.to_string()).collect::<Vec<_>>().join(",") };
                self.line(format!("c06 dev {mc} {ma} {ms} {p}"), "ok".into());
            }
            Op::Advertise { mc, ma, resp_ms } => {
                let sbrm = self.spec.sbrm_addr;
                let pokes: Vec<(u64, Vec<u8>)> = vec![
                    (sbrm.wrapping_add(regs::SBRM_MAX_CMD_TRANSFER_LENGTH), mc.to_le_bytes().to_vec()),
                    (sbrm.wrapping_add(regs::SBRM_MAX_ACK_TRANSFER_LENGTH), ma.to_le_bytes().to_vec()),
                    (regs::ABRM_MAX_DEVICE_RESPONSE_TIME, resp_ms.to_le_bytes().to_vec()),
                ];
                for (a, bs) in pokes {
                    self.usb.lock().mem.write(a, &bs);
                    self.line(format!("c06 poke {a} {}", hex(&bs)), "ok".into());
                }
                self.adv = (mc, ma, resp_ms);
            }
            Op::Warm { addr, count } => {
                let mut done = 0u64;
                let mut b = [0u8; 1];
                let r = catch(|| {
                    for _ in 0..count {
                        if self.h.read(addr, &mut b).is_err() {
                            break;
                        }
                        done += 1;
                    }
                });
                let elapsed = started.elapsed().as_millis() as u64;
                let wire = self.usb.lock().take_wire();
                let _ = self.usb.lock().take_access();
                self.common_checks(i, &wire, elapsed, timeout_before);
                let txns = split_txns(&wire);
                let ans = if r.is_err() { "panic".to_string() } else { format!("ok {done}") };
                if done != count && self.host.opened && self.host.cfg_cmd >= 24 && self.host.cfg_ack > 12 && self.plan_ok() {
                    self.violation("warm", format!("only {done} of {count} one-byte reads succeeded"), i);
                } else if let Err(w) = check_wire(&self.host, &txns, txn0) {
                    if self.host.opened && self.host.cfg_cmd >= 24 && self.host.cfg_ack > 12 && self.plan_ok() {
                        self.violation("warm-wire", w, i);
                    }
                }
                self.rep.case(&format!("warm {addr} {count} {}", self.host.next_id), done > 0);
                self.rep.count("op:warm");
                let sfx = self.suffix(&wire);
                self.line(format!("c06 warm {addr} {count}"), format!("{ans} {sfx}"));
                self.after_op(&txns);
            }
            Op::Read { addr, n } => {
                let mut buf = vec![0xEEu8; n];
                let r = catch(|| self.h.read(addr, &mut buf).map_err(|e| control_error_name(&e)));
                let elapsed = started.elapsed().as_millis() as u64;
                let wire = self.usb.lock().take_wire();
                let access = self.usb.lock().take_access();
                self.common_checks(i, &wire, elapsed, timeout_before);
                let herr: Vec<String> = vec![];
                // a ReadMem command is 24 bytes: with a smaller negotiated maximum command length
                // a (non-empty) read must be refused and nothing may go on the wire
                if self.host.opened && self.host.cfg_cmd < 24 && n > 0 {
                    if !matches!(r, Ok(Err(_))) || !wire.is_empty() {
                        self.violation("read-ignores-max-cmd", format!("read with a negotiated maximum command length of {}: {:?}, {} wire events", self.host.cfg_cmd, r, wire.len()), i);
                    }
                    self.rep.count("read:refused(maxCmd<24)");
                }
                let txns = split_txns(&wire);
                let ans = match &r {
                    Err(()) => "panic".to_string(),
                    Ok(Err(e)) => format!("err {e}"),
                    Ok(Ok(())) => format!("ok {}", data_digest(&buf)),
                };
                let in_space = (addr as u128) + (n as u128) <= 1u128 << 64;
                let pre = self.host.opened && in_space && self.host.cfg_cmd >= 24 && self.host.cfg_ack > 12
                    && self.plan_ok() && self.host.dev_limits == Some((self.host.cfg_cmd, self.host.cfg_ack));
                if pre {
                    let what = (|| -> Result<(), String> {
                        if !matches!(r, Ok(Ok(()))) {
                            return Err(format!("read of {n} bytes at {addr:#x}: {ans}"));
                        }
                        let expect = self.usb.lock().mem.read(addr, n);
                        if buf != expect {
                            let k = buf.iter().zip(&expect).position(|(a, b)| a != b).unwrap();
                            return Err(format!("returned data differs from device memory at offset {k}"));
                        }
                        if access.iter().any(|a| a.write) {
                            return Err("a read modified device memory".into());
                        }
                        if !herr.is_empty() {
                            return Err(format!("device flagged: {}", herr[0]));
                        }
                        let cmds = check_wire(&self.host, &txns, txn0)?;
                        // footprint: contiguous ascending chunks covering exactly [addr, addr+n)
                        let m = (self.host.cfg_ack as u64 - 12).min(65535);
                        let mut next = addr as u128;
                        for (j, c) in cmds.iter().enumerate() {
                            match c.body {
                                CmdBody::ReadMem { address, len } => {
                                    if address as u128 != next || len == 0 {
                                        return Err(format!("chunk #{j} not contiguous / empty"));
                                    }
                                    if j + 1 < cmds.len() && len as u64 != m {
                                        return Err(format!("chunk #{j} (not last) does not use the budget"));
                                    }
                                    next += len as u128;
                                }
                                _ => return Err(format!("command #{j} of a read is not ReadMem")),
                            }
                        }
                        if next != addr as u128 + n as u128 {
                            return Err("requested ranges do not add up to the request".into());
                        }
                        Ok(())
                    })();
                    if let Err(w) = what {
                        self.violation("read", w, i);
                    }
                    self.rep.count("read:in-precondition");
                } else {
                    self.rep.count("read:outside-precondition(differential only)");
                }
                self.rep.count(match txns.len() {
                    0 => "read:0-chunks",
                    1 => "read:1-chunk",
                    2..=9 => "read:2-9-chunks",
                    10..=999 => "read:10-999-chunks",
                    _ => "read:1000+-chunks",
                });
                self.rep.case(&format!("read {addr} {n} {} {} {:?} {}", self.host.cfg_cmd, self.host.cfg_ack, self.host.dev_plan, self.host.next_id), matches!(r, Ok(Ok(()))) && n > 0);
                let sfx = self.suffix(&wire);
                if self.rep.evaluations % 997 == 3 {
                    self.rep.sample(json!({"request": format!("c06 read {addr} {n}"), "limits": [self.host.cfg_cmd, self.host.cfg_ack], "impl": format!("{ans} {sfx}")}));
                }
                self.line(format!("c06 read {addr} {n}"), format!("{ans} {sfx}"));
                self.after_op(&txns);
            }
            Op::Write { addr, n, pat } => {
                let data = data_pattern(n, pat);
                let in_space = (addr as u128) + (n as u128) <= 1u128 << 64;
                let before_lo = if in_space && n > 0 { self.usb.lock().mem.read(addr.wrapping_sub(4), 4) } else { vec![] };
                let before_hi = if in_space && n > 0 { self.usb.lock().mem.read(addr.wrapping_add(n as u64), 4) } else { vec![] };
                let r = catch(|| self.h.write(addr, &data).map_err(|e| control_error_name(&e)));
                let elapsed = started.elapsed().as_millis() as u64;
                let wire = self.usb.lock().take_wire();
                let access = self.usb.lock().take_access();
                self.common_checks(i, &wire, elapsed, timeout_before);
                let herr: Vec<String> = vec![];
                let txns = split_txns(&wire);
                let ans = match &r {
                    Err(()) => "panic".to_string(),
                    Ok(Err(e)) => format!("err {e}"),
                    Ok(Ok(())) => "ok".to_string(),
                };
                let pre = self.host.opened && in_space && self.host.cfg_cmd > 20 && self.host.cfg_ack >= 16
                    && self.plan_ok() && self.host.dev_limits == Some((self.host.cfg_cmd, self.host.cfg_ack));
                if pre {
                    let what = (|| -> Result<(), String> {
                        if !matches!(r, Ok(Ok(()))) {
                            return Err(format!("write of {n} bytes at {addr:#x}: {ans}"));
                        }
                        if self.usb.lock().mem.read(addr, n) != data {
                            return Err("device memory does not equal the written data".into());
                        }
                        if n > 0 && (self.usb.lock().mem.read(addr.wrapping_sub(4), 4) != before_lo
                            || self.usb.lock().mem.read(addr.wrapping_add(n as u64), 4) != before_hi) {
                            return Err("bytes next to the requested range changed".into());
                        }
                        if !herr.is_empty() {
                            return Err(format!("device flagged: {}", herr[0]));
                        }
                        let cmds = check_wire(&self.host, &txns, txn0)?;
                        // footprint: the device-side writes are contiguous, ascending, and
                        // concatenate to exactly (addr, data); nothing else was accessed
                        let mut next = addr as u128;
                        let mut cat: Vec<u8> = Vec::with_capacity(n);
                        for (j, c) in cmds.iter().enumerate() {
                            match &c.body {
                                CmdBody::WriteMem { address, data } => {
                                    if *address as u128 != next || data.is_empty() {
                                        return Err(format!("chunk #{j} not contiguous / empty"));
                                    }
                                    next += data.len() as u128;
                                    cat.extend_from_slice(data);
                                }
                                _ => return Err(format!("command #{j} of a write is not WriteMem")),
                            }
                        }
                        if cat != data {
                            return Err("chunk data does not concatenate to the request".into());
                        }
                        if access.len() != cmds.len() || access.iter().any(|a| !a.write) {
                            return Err("device accesses do not match the commands".into());
                        }
                        Ok(())
                    })();
                    if let Err(w) = what {
                        self.violation(if n > 65527 { "write-large" } else { "write" }, w, i);
                    }
                    self.rep.count("write:in-precondition");
                } else {
                    self.rep.count("write:outside-precondition(differential only)");
                }
                self.rep.count(match txns.len() {
                    0 => "write:0-chunks",
                    1 => "write:1-chunk",
                    2..=9 => "write:2-9-chunks",
                    10..=999 => "write:10-999-chunks",
                    _ => "write:1000+-chunks",
                });
                self.rep.case(&format!("write {addr} {n} {pat} {} {} {:?} {}", self.host.cfg_cmd, self.host.cfg_ack, self.host.dev_plan, self.host.next_id), matches!(r, Ok(Ok(()))) && n > 0);
                let sfx = self.suffix(&wire);
                if self.rep.evaluations % 997 == 5 {
                    self.rep.sample(json!({"request": format!("c06 write {addr} {n} {pat}"), "limits": [self.host.cfg_cmd, self.host.cfg_ack], "impl": format!("{ans} {sfx}")}));
                }
                self.line(format!("c06 write {addr} {n} {pat}"), format!("{ans} {sfx}"));
                self.after_op(&txns);
            }
        }
    }

    fn host_clone(&self) -> Host {
        Host {
            opened: self.host.opened,
            next_id: self.host.next_id,
            retry: self.host.retry,
            cfg_cmd: self.host.cfg_cmd,
            cfg_ack: self.host.cfg_ack,
            dev_plan: self.host.dev_plan.clone(),
            dev_limits: self.host.dev_limits,
        }
    }
}

fn run_session(rep: &mut Report, spec: &SessionSpec) {
    let boot = Bootstrap {
        sbrm_addr: spec.sbrm_addr,
        max_cmd: spec.adv_cmd,
        max_ack: spec.adv_ack,
        response_time_ms: spec.resp_ms,
        ..Bootstrap::default()
    };
    let mut mem = SparseMem::new(spec.seed);
    boot.install(&mut mem);
    let pokes = mem_pokes(&mem);
    let usb = FakeUsb::new(mem, DevCfg::default());
    let h = make_handle(&usb);
    let mut run = Run {
        rep,
        spec,
        usb,
        h,
        adv: (spec.adv_cmd, spec.adv_ack, spec.resp_ms),
        opens: 0,
        host: Host { opened: false, next_id: 0, retry: 3, cfg_cmd: 128, cfg_ack: 128, dev_plan: vec![], dev_limits: None },
    };
    run.line(format!("c06 new {} {}", profile(), spec.seed), "ok".into());
    for (a, bs) in pokes {
        run.line(format!("c06 poke {a} {}", hex(&bs)), "ok".into());
    }
    for i in 0..spec.ops.len() {
        run.step(i);
    }
    let md = mem_digest(&run.usb.lock().mem);
    run.line("c06 mem".into(), format!("mem={md}"));
    run.rep.count("sessions");
}

/// lengths 0..3 and within +-2 of the first `ks` multiples of `m` (and of the write block)
fn lengths_around(m: u64, ks: &[u64], cap: u64) -> Vec<usize> {
    let mut v: Vec<u64> = vec![0, 1, 2, 3];
    for k in ks {
        let c = k * m;
        for d in [-2i64, -1, 0, 1, 2] {
            let x = c as i64 + d;
            if x >= 0 && (x as u64) <= cap {
                v.push(x as u64);
            }
        }
    }
    v.sort();
    v.dedup();
    v.into_iter().map(|x| x as usize).collect()
}

fn pick_addr(rng: &mut Rng, n: usize) -> u64 {
    match rng.below(6) {
        0 => (u64::MAX - n as u64).wrapping_add(1), // ends exactly at the top of the address space
        1 => 0x4_0000 + rng.below(0x10_0000),
        2 => rng.below(0x1000) + 0x1000_0000,
        3 => (1u64 << 32) - rng.below((n as u64 + 2).min(1 << 20)),
        4 => u64::MAX - n as u64 - rng.below(100_000),
        _ => rng.next_u64() >> rng.below(40) >> 1,
    }
}

fn main() {
    let args = parse_args();
    let mut rep = Report::new(
        "C06",
        "sessions of open / read / write ops on the real ControlHandle over the scripted conforming device: \
         advertised limits x pending plans x retry counts x lengths (0..3, within +-2 of multiples of the chunk \
         size and of the 65527-byte write block, random up to 200 KiB) x addresses (incl. ending exactly at 2^64) \
         x request-id wrap; a case is non-trivial when the op succeeds and moves at least one byte; \
         distinct by (op,address,length,limits,plan,request id)",
    );
    let mut rng = Rng::new(args.seed);

    if let Some(path) = &args.replay {
        let v: Value = serde_json::from_str(&std::fs::read_to_string(path).unwrap()).unwrap();
        let spec = spec_from(&v["replay"]);
        run_session(&mut rep, &spec);
        rep.write(&args);
        return;
    }

    let thorough = args.thorough();

    // minimised past failures first
    if let Ok(rd) = std::fs::read_dir("/verif/corpus/C06") {
        let mut files: Vec<_> = rd.filter_map(|e| e.ok()).map(|e| e.path()).filter(|p| p.extension().is_some_and(|x| x == "json")).collect();
        files.sort();
        for f in files {
            let v: Value = serde_json::from_str(&std::fs::read_to_string(&f).unwrap()).unwrap();
            let spec = spec_from(&v["replay"]);
            run_session(&mut rep, &spec);
            rep.count("sessions:corpus");
        }
    }
    // (advertised maximum command length, advertised maximum ack length)
    let mut limits: Vec<(u32, u32)> = vec![
        (24, 13), (24, 14), (24, 15), (24, 16), (21, 16), (21, 13), (22, 17), (24, 24), (64, 64), (128, 128), (1024, 1024),
        (1024, 64), (64, 1024), (4096, 512), (65535, 65535), (65536, 65536), (65547, 65547), (65548, 65546),
        (70000, 70000), (1 << 20, 1 << 20), (u32::MAX, u32::MAX), (u32::MAX, 24), (24, u32::MAX),
    ];
    if thorough {
        limits.extend([(23, 18), (25, 19), (31, 20), (40, 33), (100, 100), (500, 300), (8192, 8192), (65546, 65548), (131072, 131072)]);
    }
    let plans: Vec<(u16, Vec<u16>)> = vec![
        (3, vec![]), (3, vec![1, 0, 2]), (1, vec![0]), (2, vec![1]), (5, vec![4, 0, 0, 3, 1]), (3, vec![2]),
    ];
    let cap_total: u64 = 200 * 1024;

    for (li, (mc, ma)) in limits.iter().copied().enumerate() {
        for (pi, (retry, plan)) in plans.iter().enumerate() {
            // quick: the plain plan plus one rotating pending plan per limits pair
            if !thorough && pi != 0 && pi != 1 + li % (plans.len() - 1) {
                continue;
            }
            let m_r = (ma as u64).saturating_sub(12).min(65535).max(1);
            let m_w = (mc as u64).saturating_sub(20).max(1);
            // bound the number of transactions per op so tiny limits stay fast
            let max_txn: u64 = if thorough { 1000 } else { 300 };
            let cap_r = (m_r * max_txn).min(cap_total);
            let cap_w = (m_w * max_txn).min(cap_total);
            let mut ops = vec![Op::Open, Op::Retry(*retry), Op::Dev { mc, ma, ms: 0, plan: plan.clone() }];
            let ks: Vec<u64> = if thorough { vec![1, 2, 3, 4, 7, 16] } else { vec![1, 2, 3] };
            let mut rl = lengths_around(m_r, &ks, cap_r);
            let mut wl = lengths_around(m_w, &ks, cap_w);
            if pi == 0 || thorough {
                // the 65527-byte write block and the 65535-byte read chunk ceiling
                let bk: Vec<u64> = if thorough { vec![1, 2, 3] } else { vec![1, 2] };
                wl.extend(lengths_around(65527, &bk, cap_w));
                rl.extend(lengths_around(65535, &bk, cap_r));
            }
            for _ in 0..(if thorough { 4 } else { 2 }) {
                rl.push(rng.below(cap_r + 1) as usize);
                wl.push(rng.below(cap_w + 1) as usize);
            }
            if pi == 0 {
                rl.push(cap_r as usize);
                wl.push(cap_w as usize);
            }
            rl.sort();
            rl.dedup();
            wl.sort();
            wl.dedup();
            let mut k = 0;
            while k < rl.len() || k < wl.len() {
                if let Some(n) = wl.get(k) {
                    let addr = pick_addr(&mut rng, *n);
                    ops.push(Op::Write { addr, n: *n, pat: rng.below(200) });
                    if rng.chance(1, 4) {
                        ops.push(Op::Read { addr, n: *n });
                    }
                }
                if let Some(n) = rl.get(k) {
                    ops.push(Op::Read { addr: pick_addr(&mut rng, *n), n: *n });
                }
                k += 1;
            }
            ops.push(Op::Close);
            let spec = SessionSpec {
                seed: rng.below(256),
                sbrm_addr: if li % 3 == 0 { 0x1_0000 } else { 0x10_0000 + rng.below(1 << 30) * 4 },
                adv_cmd: mc,
                adv_ack: ma,
                resp_ms: [0u32, 1, 500, 10_000, u32::MAX][(li + pi) % 5],
                ops,
                model: true,
            };
            run_session(&mut rep, &spec);
        }
        if rep.evaluations > 1500 {
            rep.flush_model(&args.camdrv);
        }
    }

    // pending acknowledges whose announced time-outs must really be waited for: 20 ms each (the
    // elapsed-time oracle of `common_checks` bites), and 258 ms = 0x0102 (byte order of the field)
    for (ms, plan, retry) in [(20u16, vec![2u16, 0, 1], 4u16), (258, vec![1, 0, 0, 0], 2), (3, vec![1, 2], 3)] {
        let mut ops = vec![Op::Open, Op::Retry(retry), Op::Dev { mc: 64, ma: 64, ms, plan }];
        for n in [1usize, 52, 53, 120] {
            ops.push(Op::Write { addr: 0x7000, n, pat: n as u64 });
            ops.push(Op::Read { addr: 0x7000, n });
        }
        let spec = SessionSpec { seed: 9, sbrm_addr: 0x1_0000, adv_cmd: 64, adv_ack: 64, resp_ms: 7, ops, model: true };
        run_session(&mut rep, &spec);
        rep.count("sessions:timed-pending-waits");
    }

    // pending acks that announce a non-zero timeout (the host really sleeps): one short session
    {
        let mut ops = vec![Op::Open, Op::Retry(4), Op::Dev { mc: 64, ma: 64, ms: 1, plan: vec![3, 0, 1] }];
        for n in [0usize, 1, 51, 52, 53, 104, 300] {
            ops.push(Op::Write { addr: 0x7000, n, pat: n as u64 });
            ops.push(Op::Read { addr: 0x7000, n });
        }
        let spec = SessionSpec { seed: 9, sbrm_addr: 0x1_0000, adv_cmd: 64, adv_ack: 64, resp_ms: 2, ops, model: true };
        run_session(&mut rep, &spec);
    }

    // re-opened handles: the request ids continue across close/open, the bootstrap registers are
    // read with the initial 128/128 limits again, and the newly advertised limits / response time
    // are in force from the first op after the open
    {
        let lenient = Op::Dev { mc: u32::MAX, ma: u32::MAX, ms: 0, plan: vec![] };
        let mut ops = vec![Op::Open, Op::Dev { mc: 24, ma: 16, ms: 0, plan: vec![0, 1] }];
        for n in [3usize, 9, 40] {
            ops.push(Op::Write { addr: 0x7000, n, pat: n as u64 });
            ops.push(Op::Read { addr: 0x7000, n });
        }
        ops.extend([Op::Close, lenient.clone(), Op::Advertise { mc: 1024, ma: 512, resp_ms: 0 }, Op::Open, Op::Dev { mc: 1024, ma: 512, ms: 0, plan: vec![] }]);
        for n in [1usize, 499, 500, 501, 2100] {
            ops.push(Op::Write { addr: 0x9000, n, pat: n as u64 });
            ops.push(Op::Read { addr: 0x9000, n });
        }
        ops.extend([Op::Close, Op::Close, lenient.clone(), Op::Advertise { mc: 21, ma: 13, resp_ms: u32::MAX }, Op::Open, Op::Open, Op::Dev { mc: 21, ma: 13, ms: 0, plan: vec![] }]);
        for n in [1usize, 2, 5] {
            ops.push(Op::Write { addr: 0xA000, n, pat: n as u64 });
            ops.push(Op::Read { addr: 0xA000, n });
        }
        ops.extend([Op::Close, lenient, Op::Advertise { mc: 64, ma: 64, resp_ms: 9 }, Op::Open, Op::Dev { mc: 64, ma: 64, ms: 0, plan: vec![1] }]);
        for n in [52usize, 53, 150] {
            ops.push(Op::Read { addr: 0x9000, n });
        }
        ops.push(Op::Close);
        let spec = SessionSpec { seed: 11, sbrm_addr: 0x1_0000, adv_cmd: 24, adv_ack: 16, resp_ms: 2, ops, model: true };
        run_session(&mut rep, &spec);
        rep.count("sessions:re-opened-handle");
    }

    // request-id wrap: start near 65535 by doing many one-byte reads, then mixed ops across the wrap
    let wrap_sessions = if thorough { 4 } else { 1 };
    for w in 0..wrap_sessions {
        let (mc, ma) = [(128u32, 128u32), (24, 16), (1024, 64), (64, 29)][w % 4];
        let plan: Vec<u16> = if w % 2 == 0 { vec![] } else { vec![0, 1] };
        let mut ops = vec![Op::Open, Op::Dev { mc, ma, ms: 0, plan }];
        let warm = 65536 - 6 - 10 - rng.below(20);
        ops.push(Op::Warm { addr: 0x5000, count: warm });
        for _ in 0..30 {
            let n = rng.below(4 * (ma as u64 - 12)) as usize;
            let addr = pick_addr(&mut rng, n);
            if rng.bool() {
                ops.push(Op::Write { addr, n, pat: rng.below(99) });
            }
            ops.push(Op::Read { addr, n });
        }
        let spec = SessionSpec { seed: 7 + w as u64, sbrm_addr: 0x1_0000, adv_cmd: mc, adv_ack: ma, resp_ms: 1, ops, model: true };
        run_session(&mut rep, &spec);
        rep.flush_model(&args.camdrv);
    }

    // implementation-side oracle only: EVERY length within +-2 of every multiple of the chunk size up to 200 KiB
    let sweep: Vec<(u32, u32)> = if thorough { vec![(1024, 1024), (128, 128), (65547, 65547), (4096, 512), (70000, 70000)] } else { vec![(1024, 1024), (65547, 65547)] };
    for (mc, ma) in sweep {
        let m_r = (ma as u64 - 12).min(65535);
        let m_w = mc as u64 - 20;
        let mut ops = vec![Op::Open, Op::Dev { mc, ma, ms: 0, plan: vec![0, 0, 1] }];
        let all: Vec<u64> = (1..=cap_total / m_r + 1).collect();
        for n in lengths_around(m_r, &all, cap_total) {
            ops.push(Op::Read { addr: pick_addr(&mut rng, n), n });
        }
        let all: Vec<u64> = (1..=cap_total / m_w + 1).collect();
        let step = if thorough { 1 } else { 3 };
        for n in lengths_around(m_w, &all, cap_total).into_iter().step_by(step) {
            ops.push(Op::Write { addr: pick_addr(&mut rng, n), n, pat: rng.below(200) });
        }
        let spec = SessionSpec { seed: 1, sbrm_addr: 0x1_0000, adv_cmd: mc, adv_ack: ma, resp_ms: 1, ops, model: false };
        run_session(&mut rep, &spec);
        rep.count("sessions:impl-oracle-only(full multiples sweep)");
    }
    rep.write(&args);
}
