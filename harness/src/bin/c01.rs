//! C01 — register features encode and decode values exactly.
//! Real `IntReg`/`FloatReg`/`StringReg`/`Register` nodes are built by the real parser
//! from generated GenApi XML (caching off) and driven through `IInteger`/`IFloat`/
//! `IString`/`IRegister` against a recording in-memory device.  Every case is
//! (a) checked against an independent Rust expectation (property oracle) and
//! (b) sent to the Lean model (`CamVerif.Model.Reg`), comparing result / error class /
//! access log / final device image.

#[path = "../c01_regdev.rs"]
mod regdev;

use camharness::*;
use cameleon_genapi::builder::GenApiBuilder;
use cameleon_genapi::prelude::*;
use cameleon_genapi::store::{CacheSink, DefaultNodeStore, DefaultValueStore};
use cameleon_genapi::{NodeId, NodeStore, ValueCtxt};
use regdev::*;

#[derive(Clone, Copy, PartialEq, Eq, Debug)]
enum Kind {
    IntReg,
    FloatReg,
    StringReg,
    Register,
}

impl Kind {
    fn tag(self) -> &'static str {
        match self {
            Kind::IntReg => "IntReg",
            Kind::FloatReg => "FloatReg",
            Kind::StringReg => "StringReg",
            Kind::Register => "Register",
        }
    }
}

#[derive(Clone, Debug)]
struct Spec {
    name: String,
    kind: Kind,
    len: i64,
    be: bool,
    signed: bool,
    addr: i64,
    chunk: bool,
    /// connected to the port that declares <SwapEndianess>Yes</SwapEndianess>
    swap: bool,
}

fn xml_of(specs: &[Spec]) -> String {
    let mut s = String::from(XML_HEAD);
    for (i, n) in specs.iter().enumerate() {
        let addr = if i % 3 == 0 && n.addr >= 0 { format!("0x{:x}", n.addr) } else { n.addr.to_string() };
        s += &format!("<{} Name=\"{}\"><Address>{}</Address><Length>{}</Length><AccessMode>RW</AccessMode><pPort>{}</pPort>",
            n.kind.tag(), n.name, addr, n.len, if n.chunk { "ChunkPort" } else if n.swap { "SwapPort" } else { "Device" });
        if i % 2 == 0 {
            s += "<Cachable>NoCache</Cachable>";
        }
        if n.kind == Kind::IntReg {
            // defaults (Unsigned, LittleEndian) are exercised by omitting the element on some nodes
            if n.signed || i % 4 < 2 {
                s += if n.signed { "<Sign>Signed</Sign>" } else { "<Sign>Unsigned</Sign>" };
            }
        }
        if matches!(n.kind, Kind::IntReg | Kind::FloatReg) && (n.be || i % 4 == 1) {
            s += if n.be { "<Endianess>BigEndian</Endianess>" } else { "<Endianess>LittleEndian</Endianess>" };
        }
        s += &format!("</{}>\n", n.kind.tag());
    }
    s += XML_TAIL;
    s
}

struct World {
    store: DefaultNodeStore,
    cx: ValueCtxt<DefaultValueStore, CacheSink>,
    specs: Vec<Spec>,
    ids: Vec<NodeId>,
}

fn build(specs: Vec<Spec>) -> World {
    let xml = xml_of(&specs);
    let (_, store, cx) = GenApiBuilder::<DefaultNodeStore>::default().no_cache().build(&xml).expect("generated XML parses");
    let ids = specs.iter().map(|s| store.id_by_name(&s.name).expect("node present")).collect();
    World { store, cx, specs, ids }
}

#[derive(Clone, Debug)]
enum Op {
    IntValue,
    IntSet(i64),
    IntMin,
    IntMax,
    FloatValue,
    FloatSet(u64),
    StrValue,
    StrSet(String),
    RegRead(usize),
    RegWrite(Vec<u8>),
}

#[derive(Clone, Debug, PartialEq)]
enum Out {
    Int(i64),
    Float(u64),
    Str(String),
    Bytes(Vec<u8>),
    Unit,
    Err(&'static str),
    Panic,
}

fn run_real(w: &mut World, idx: usize, op: &Op, dev: &mut RecDevice) -> Out {
    run_op(&w.store, &mut w.cx, w.ids[idx], op, dev)
}

fn run_op<C: cameleon_genapi::CacheStore>(store: &DefaultNodeStore, cx: &mut ValueCtxt<DefaultValueStore, C>, nid: NodeId, op: &Op, dev: &mut RecDevice) -> Out {
    let r = catch(|| -> Result<Out, cameleon_genapi::GenApiError> {
        Ok(match op {
            Op::IntValue => Out::Int(nid.expect_iinteger_kind(store)?.value(dev, store, cx)?),
            Op::IntMin => Out::Int(nid.expect_iinteger_kind(store)?.min(dev, store, cx)?),
            Op::IntMax => Out::Int(nid.expect_iinteger_kind(store)?.max(dev, store, cx)?),
            Op::IntSet(v) => {
                nid.expect_iinteger_kind(store)?.set_value(*v, dev, store, cx)?;
                Out::Unit
            }
            Op::FloatValue => Out::Float(nid.expect_ifloat_kind(store)?.value(dev, store, cx)?.to_bits()),
            Op::FloatSet(b) => {
                nid.expect_ifloat_kind(store)?.set_value(f64::from_bits(*b), dev, store, cx)?;
                Out::Unit
            }
            Op::StrValue => Out::Str(nid.expect_istring_kind(store)?.value(dev, store, cx)?),
            Op::StrSet(s) => {
                nid.expect_istring_kind(store)?.set_value(s.clone(), dev, store, cx)?;
                Out::Unit
            }
            Op::RegRead(n) => {
                let mut buf = vec![0xEEu8; *n];
                nid.expect_iregister_kind(store)?.read(&mut buf, dev, store, cx)?;
                Out::Bytes(buf)
            }
            Op::RegWrite(d) => {
                nid.expect_iregister_kind(store)?.write(d, dev, store, cx)?;
                Out::Unit
            }
        })
    });
    match r {
        Err(()) => Out::Panic,
        Ok(Err(e)) => Out::Err(err_name(&e)),
        Ok(Ok(o)) => o,
    }
}

// ---------- independent expectations (property oracle) ----------

fn dec_unsigned(bytes: &[u8], be: bool) -> u128 {
    let mut v: u128 = 0;
    if be {
        for b in bytes {
            v = (v << 8) | *b as u128;
        }
    } else {
        for b in bytes.iter().rev() {
            v = (v << 8) | *b as u128;
        }
    }
    v
}

/// value an n-byte image denotes (two's complement for signed); for 8-byte unsigned the
/// API type is i64, so the upper half is reported as the same 64 bits.
fn expected_int(bytes: &[u8], be: bool, signed: bool) -> i64 {
    let u = dec_unsigned(bytes, be);
    let n = bytes.len() * 8;
    if signed && (u >> (n - 1)) & 1 == 1 {
        (u as i128 - (1i128 << n)) as i64
    } else {
        u as u64 as i64
    }
}

fn image_of(v: i64, len: usize, be: bool) -> Vec<u8> {
    let mut b: Vec<u8> = (0..len).map(|i| (((v as i128) >> (8 * i)) & 0xff) as u8).collect();
    if be {
        b.reverse();
    }
    b
}

fn in_range(v: i64, len: usize, signed: bool) -> bool {
    if len == 8 {
        return true; // i64 API: every i64 is the same 64 bits back
    }
    let bits = 8 * len as u32;
    if signed {
        v >= -(1i64 << (bits - 1)) && v < (1i64 << (bits - 1))
    } else {
        v >= 0 && v < (1i64 << bits)
    }
}

/// IEEE-754 binary64 -> binary32, round to nearest even, written on integers.
/// Returns None for NaN (only NaN-ness is checked there).
fn soft_narrow(bits: u64) -> Option<u32> {
    let sign = ((bits >> 63) as u32) << 31;
    let exp = ((bits >> 52) & 0x7ff) as i64;
    let man = bits & ((1u64 << 52) - 1);
    if exp == 0x7ff {
        return if man == 0 { Some(sign | 0x7f80_0000) } else { None };
    }
    if exp == 0 {
        return Some(sign); // f64 subnormals are far below f32's smallest subnormal/2
    }
    let e = exp - 1023; // unbiased
    let sig = man | (1u64 << 52); // 53-bit significand, value = sig * 2^(e-52)
    // target: normal if e >= -126: keep 24 bits (shift 29); subnormal: shift more
    let shift: i64 = if e >= -126 { 29 } else { 29 + (-126 - e) };
    if shift > 63 {
        return Some(sign);
    }
    let q = sig >> shift;
    let rem = sig & ((1u64 << shift) - 1);
    let half = 1u64 << (shift - 1);
    let mut q = q;
    if rem > half || (rem == half && (q & 1) == 1) {
        q += 1;
    }
    // q is the 24-bit significand (with hidden bit) for normals, or the subnormal mantissa
    let out = if e >= -126 {
        let mut ee = e + 127;
        let mut qq = q;
        if qq == (1u64 << 24) {
            qq >>= 1;
            ee += 1;
        }
        if ee >= 255 {
            0x7f80_0000
        } else {
            ((ee as u32) << 23) | (qq as u32 & 0x7f_ffff)
        }
    } else {
        q as u32 // may carry into the smallest normal: encoding is contiguous
    };
    Some(sign | out)
}

/// binary32 -> binary64 (exact). None for NaN.
fn soft_widen(b: u32) -> Option<u64> {
    let sign = ((b >> 31) as u64) << 63;
    let exp = ((b >> 23) & 0xff) as i64;
    let man = (b & 0x7f_ffff) as u64;
    if exp == 0xff {
        return if man == 0 { Some(sign | 0x7ff0_0000_0000_0000) } else { None };
    }
    if exp == 0 {
        if man == 0 {
            return Some(sign);
        }
        // subnormal: value = man * 2^-149; normalise
        let top = 63 - man.leading_zeros() as i64; // position of the leading one
        let e = top - 149;
        let frac = (man << (52 - top)) & ((1u64 << 52) - 1);
        return Some(sign | (((e + 1023) as u64) << 52) | frac);
    }
    Some(sign | (((exp - 127 + 1023) as u64) << 52) | (man << 29))
}

struct Verdict {
    sig: Value,
    what: String,
}

fn viol(kind: &str, s: &Spec, extra: Value, what: String) -> Option<Verdict> {
    Some(Verdict {
        sig: json!({"kind": kind, "node": s.kind.tag(), "len": s.len, "be": s.be, "signed": s.signed, "detail": extra}),
        what,
    })
}

/// Property oracle on the implementation's own outputs.  Preconditions of the
/// statement: plain (non-chunk) port, reliable device, non-negative length.
fn oracle(s: &Spec, op: &Op, before: &RecDevice, out: &Out, after: &RecDevice) -> Option<Verdict> {
    if s.chunk || s.len < 0 || before.refuse.contains(&0) {
        // No device access can be performed here (chunk port: ChunkDataMissing / todo!();
        // negative length: nothing addressable; refuse=[0]: the only access of the op is
        // refused).  Whatever the result, the device must be untouched and an `Ok` is impossible.
        if matches!(op, Op::IntMin | Op::IntMax) {
            return None;
        }
        if after.img != before.img || !after.outside.is_empty() || after.writes() != 0 {
            return viol("write-on-refusal", s, json!("refusing-device/chunk/negative-length"), format!("device changed although no access could succeed: log {}", after.log_str()));
        }
        if !after.log.is_empty() {
            return viol("footprint", s, json!("access logged although refused"), after.log_str());
        }
        if !matches!(out, Out::Err(_) | Out::Panic) {
            return viol("ok-without-device-access", s, json!(null), format!("{:?} although the device performed no access", out));
        }
        if before.refuse.contains(&0) && !s.chunk && s.len >= 0 && *out == Out::Panic {
            return viol("panic", s, json!("refusing device"), "panic on a device error".into());
        }
        return None;
    }
    // (a fault script that does not contain 0 cannot fire: every op performs at most one access)
    let len = s.len as usize;
    let off = (s.addr - before.base) as usize;
    let reg_before = &before.img[off..off + len];
    let reg_after = &after.img[off..off + len];
    // frame: nothing outside [address, address+length) changes, ever
    if before.img[..off] != after.img[..off] || before.img[off + len..] != after.img[off + len..] || !after.outside.is_empty() {
        return viol("frame", s, json!(null), "bytes outside [address, address+length) changed".into());
    }
    if *out == Out::Panic {
        return viol("panic", s, json!(format!("{:?}", op).split('(').next()), "panic".into());
    }
    let one_read = || after.log.len() == 1 && after.log[0] == Access { write: false, addr: s.addr, len, bytes: reg_before.to_vec() };
    let one_write = |data: &[u8]| after.log.len() == 1 && after.log[0] == Access { write: true, addr: s.addr, len, bytes: data.to_vec() };
    let refused_clean = |cls: &str| -> Option<Verdict> {
        if !matches!(out, Out::Err(c) if *c == cls) {
            return viol("not-refused", s, json!(cls), format!("expected Err({cls}), got {:?}", out));
        }
        if after.writes() != 0 || reg_after != reg_before {
            return viol("write-on-refusal", s, json!(cls), "device written although the access was refused".into());
        }
        None
    };
    match op {
        Op::IntMin | Op::IntMax => {
            // not a clause of the statement (the node reports the full i64 range whatever its
            // length); only: no device access
            if !after.log.is_empty() {
                return viol("footprint", s, json!("min/max touched the device"), after.log_str());
            }
            None
        }
        Op::IntValue => {
            if matches!(len, 1 | 2 | 4 | 8) {
                let exp = expected_int(reg_before, s.be, s.signed);
                if *out != Out::Int(exp) {
                    return viol("int-decode", s, json!(null), format!("value() = {:?}, image {} denotes {exp}", out, hex(reg_before)));
                }
                if !one_read() {
                    return viol("footprint", s, json!("value"), format!("log {}", after.log_str()));
                }
                None
            } else {
                refused_clean("InvalidBuffer")
            }
        }
        Op::IntSet(v) => {
            if matches!(len, 1 | 2 | 4 | 8) {
                let img = image_of(*v, len, s.be);
                if *out != Out::Unit {
                    return viol("int-encode", s, json!(null), format!("set_value({v}) = {:?}", out));
                }
                if !one_write(&img) || reg_after != &img[..] {
                    return viol("int-image", s, json!(null), format!("set_value({v}): log {} expected W {}", after.log_str(), hex(&img)));
                }
                None
            } else {
                let r = refused_clean("InvalidBuffer");
                if r.is_none() && !after.log.is_empty() {
                    return viol("footprint", s, json!("refused set_value touched the device"), after.log_str());
                }
                r
            }
        }
        Op::FloatValue => {
            if matches!(len, 4 | 8) {
                let u = dec_unsigned(reg_before, s.be);
                let exp = if len == 8 { Some(u as u64) } else { soft_widen(u as u32) };
                let ok = match (exp, out) {
                    (Some(e), Out::Float(b)) => e == *b,
                    (None, Out::Float(b)) => f64::from_bits(*b).is_nan(),
                    _ => false,
                };
                if !ok {
                    return viol("float-decode", s, json!(null), format!("value() = {:x?}, image {}", out, hex(reg_before)));
                }
                if !one_read() {
                    return viol("footprint", s, json!("value"), format!("log {}", after.log_str()));
                }
                None
            } else {
                refused_clean("InvalidBuffer")
            }
        }
        Op::FloatSet(b) => {
            if matches!(len, 4 | 8) {
                if *out != Out::Unit {
                    return viol("float-encode", s, json!(null), format!("set_value = {:?}", out));
                }
                let ok = if len == 8 {
                    one_write(&image_of(*b as i64, 8, s.be))
                } else {
                    match soft_narrow(*b) {
                        Some(n) => one_write(&image_of(n as i64, 4, s.be)),
                        None => {
                            // NaN: any f32 NaN with the same sign
                            let got = dec_unsigned(reg_after, s.be) as u32;
                            after.log.len() == 1 && after.log[0].write && after.log[0].addr == s.addr && after.log[0].bytes == reg_after
                                && f32::from_bits(got).is_nan() && (got >> 31) as u64 == (*b >> 63)
                        }
                    }
                };
                if !ok {
                    return viol("float-image", s, json!(null), format!("set_value(f:{b:016x}): log {}", after.log_str()));
                }
                None
            } else {
                let r = refused_clean("InvalidBuffer");
                if r.is_none() && !after.log.is_empty() {
                    return viol("footprint", s, json!("refused set_value touched the device"), after.log_str());
                }
                r
            }
        }
        Op::StrValue => {
            let end = reg_before.iter().position(|b| *b == 0).unwrap_or(len);
            let prefix = &reg_before[..end];
            let ok = match out {
                // ASCII prefix (the contract): the returned string's bytes are exactly the prefix
                Out::Str(st) if prefix.is_ascii() => st.as_bytes() == prefix,
                // non-ASCII device bytes: only the std lossy decoding can be compared (self-comparison)
                Out::Str(st) => *st == String::from_utf8_lossy(prefix),
                _ => false,
            };
            if !ok {
                return viol("str-decode", s, json!(null), format!("value() = {:?}, register prefix {}", out, hex(prefix)));
            }
            if !one_read() {
                return viol("footprint", s, json!("value"), format!("log {}", after.log_str()));
            }
            None
        }
        Op::StrSet(v) => {
            let representable = v.is_ascii() && !v.contains('\0') && v.len() <= len;
            if representable {
                let mut img = v.as_bytes().to_vec();
                img.resize(len, 0);
                if *out != Out::Unit || !one_write(&img) || reg_after != &img[..] {
                    return viol("str-image", s, json!(null), format!("set_value({v:?}) = {:?}, log {}", out, after.log_str()));
                }
                None
            } else {
                // unrepresentable: must be refused without any device access
                let why = if !v.is_ascii() { "non-ascii" } else if v.len() > len { "too-long" } else { "interior-nul" };
                if !matches!(out, Out::Err("InvalidData")) {
                    return viol("str-unrepresentable-accepted", s, json!(why), format!("set_value({v:?}) = {:?} (log {})", out, after.log_str()));
                }
                if !after.log.is_empty() {
                    return viol("write-on-refusal", s, json!(why), after.log_str());
                }
                None
            }
        }
        Op::RegRead(n) => {
            if *n == len {
                if *out != Out::Bytes(reg_before.to_vec()) || !one_read() {
                    return viol("raw-read", s, json!(null), format!("read = {:?}, log {}", out, after.log_str()));
                }
                None
            } else {
                let r = refused_clean("InvalidBuffer");
                if r.is_none() && !after.log.is_empty() {
                    return viol("footprint", s, json!("refused read touched the device"), after.log_str());
                }
                r
            }
        }
        Op::RegWrite(d) => {
            if d.len() == len {
                if *out != Out::Unit || !one_write(d) || reg_after != &d[..] {
                    return viol("raw-write", s, json!(null), format!("write = {:?}, log {}", out, after.log_str()));
                }
                None
            } else {
                let r = refused_clean("InvalidBuffer");
                if r.is_none() && !after.log.is_empty() {
                    return viol("footprint", s, json!("refused write touched the device"), after.log_str());
                }
                r
            }
        }
    }
}

// ---------- case execution ----------

fn op_tokens(op: &Op) -> (String, String) {
    match op {
        Op::IntValue => ("int.value".into(), "-".into()),
        Op::IntMin => ("int.min".into(), "-".into()),
        Op::IntMax => ("int.max".into(), "-".into()),
        Op::IntSet(v) => ("int.set".into(), v.to_string()),
        Op::FloatValue => ("float.value".into(), "-".into()),
        Op::FloatSet(b) => ("float.set".into(), format!("f:{b:016x}")),
        Op::StrValue => ("str.value".into(), "-".into()),
        Op::StrSet(s) => ("str.set".into(), hex(s.as_bytes())),
        Op::RegRead(n) => ("reg.read".into(), n.to_string()),
        Op::RegWrite(d) => ("reg.write".into(), hex(d)),
    }
}

fn out_str(out: &Out, s: &Spec, before: &RecDevice) -> String {
    match out {
        Out::Int(v) => format!("ok {v}"),
        Out::Float(b) => format!("ok f:{b:016x}"),
        Out::Str(st) => {
            // canonical form: the raw bytes before the first NUL, provided the returned String
            // is their lossy UTF-8 decoding (std, outside the model)
            let len = s.len.max(0) as usize;
            let off = (s.addr - before.base) as usize;
            let reg = &before.img[off..off + len];
            let end = reg.iter().position(|b| *b == 0).unwrap_or(len);
            let same = if reg[..end].is_ascii() { st.as_bytes() == &reg[..end] } else { String::from_utf8_lossy(&reg[..end]) == st.as_str() };
            if same {
                // second field: the UTF-8 bytes of the returned String, compared with the model of
                // from_utf8_lossy (lean/CamVerif/Model/RegUtf8.lean)
                format!("ok {}|{}", hex(&reg[..end]), hex(st.as_bytes()))
            } else {
                format!("ok NOT-LOSSY-OF-PREFIX:{}", hex(st.as_bytes()))
            }
        }
        Out::Bytes(b) => format!("ok {}", hex(b)),
        Out::Unit => "ok".into(),
        Out::Err(e) => format!("err {e}"),
        Out::Panic => "panic".into(),
    }
}

struct Runner {
    w: World,
    rep: Report,
    camdrv: String,
}

impl Runner {
    /// Run one op on a fresh device; returns the device afterwards and the output.
    fn case(&mut self, idx: usize, op: Op, dev: RecDevice, src: &str) -> (Out, RecDevice) {
        let s = self.w.specs[idx].clone();
        let before = dev.clone();
        let mut dev = dev;
        let out = run_real(&mut self.w, idx, &op, &mut dev);
        let (opname, arg) = op_tokens(&op);
        let req = format!(
            "c01 {opname} {} {} {} {} {} {} {} {} {arg}",
            s.chunk as u8,
            if s.be { "be" } else { "le" },
            if s.signed { "s" } else { "u" },
            s.addr,
            s.len,
            before.base,
            hex(&before.img),
            before.refuse_str()
        );
        let unsupported = (matches!(op, Op::IntValue | Op::IntSet(_)) && !matches!(s.len, 1 | 2 | 4 | 8))
            || (matches!(op, Op::FloatValue | Op::FloatSet(_)) && !matches!(s.len, 4 | 8));
        let ans = if s.len >= 0 && unsupported && matches!(out, Out::Err(_)) {
            // "refused with an error": which error wins when the port/device would fail too is not specified
            format!("err UnsupportedLength;W={};{}", dev.writes(), hex(&dev.img))
        } else if s.len < 0 && matches!(out, Out::Err(_) | Out::Panic) {
            // negative <Length>: outside the statement; panic and error are both "refused"
            format!("refused;W={};{}", dev.writes(), hex(&dev.img))
        } else {
            answer(&out_str(&out, &s, &before), &dev)
        };
        // distinct non-trivial cases: hashed by (node configuration, register bytes for reads,
        // operation, argument, fault script) -- NOT by the random pad bytes around the register;
        // min/max touch nothing and do not count
        let nontrivial = !matches!(out, Out::Err(_) | Out::Panic) && !matches!(op, Op::IntMin | Op::IntMax);
        let reg_part = if s.len >= 0 && matches!(op, Op::IntValue | Op::FloatValue | Op::StrValue | Op::RegRead(_)) {
            let off = (s.addr - before.base) as usize;
            hex(&before.img[off..off + s.len as usize])
        } else {
            "-".into()
        };
        let canon = format!("{} {} {} {} {} {} {} {opname} {arg} {reg_part} {}", s.kind.tag(), s.len, s.be, s.signed, s.chunk, s.swap, s.addr, before.refuse_str());
        self.rep.case(&canon, nontrivial);
        if s.swap {
            self.rep.count("port/SwapEndianess=Yes (pinned: no effect)");
        }
        self.rep.count(&format!("{}/{}", s.kind.tag(), opname));
        self.rep.count(&format!("src/{src}"));
        self.rep.count(&format!(
            "out/{}",
            match &out {
                Out::Err(e) => format!("err-{e}"),
                Out::Panic => "panic".into(),
                _ => "ok".into(),
            }
        ));
        self.rep.count(&format!("len/{}", s.len));
        if let (Op::StrValue, Out::Str(st)) = (&op, &out) {
            self.rep.count(if st.is_ascii() { "str.value/ascii-prefix(raw-byte oracle)" } else if st.contains('\u{fffd}') { "str.value/non-ascii-prefix with U+FFFD (lossy model compared)" } else { "str.value/non-ascii-prefix, well-formed UTF-8 (lossy model compared)" });
        }
        if let Op::IntSet(v) = &op {
            if out == Out::Unit && matches!(s.len, 1 | 2 | 4) && !in_range(*v, s.len as usize, s.signed) {
                self.rep.count("int.set/out-of-natural-range value truncated (accepted, not refused)");
            }
        }
        if let Some(v) = oracle(&s, &op, &before, &out, &dev) {
            self.rep.violation(
                v.sig,
                &v.what,
                json!({"spec": {"kind": s.kind.tag(), "len": s.len, "be": s.be, "signed": s.signed, "addr": s.addr.to_string(), "chunk": s.chunk, "swap": s.swap},
                       "op": opname, "arg": arg, "base": before.base.to_string(), "img": hex(&before.img), "refuse": before.refuse_str()}),
            );
        }
        if self.rep.evaluations % 20011 == 1 {
            self.rep.sample(json!({"request": req, "impl": ans}));
        }
        self.rep.expect(req, ans);
        if self.rep.evaluations % 200_000 == 0 {
            let c = self.camdrv.clone();
            self.rep.flush_model(&c);
        }
        (out, dev)
    }

    fn fresh_dev(&self, idx: usize, rng: &mut Rng, fill: Option<u8>) -> RecDevice {
        let s = &self.w.specs[idx];
        let len = s.len.max(0) as usize;
        let pad_lo = rng.below(9) as usize;
        let pad_hi = rng.below(9) as usize;
        let img = match fill {
            Some(b) => vec![b; pad_lo + len + pad_hi],
            None => rng.bytes(pad_lo + len + pad_hi),
        };
        RecDevice::new(s.addr - pad_lo as i64, img, vec![])
    }

    /// set then read back on the same device; the round-trip oracle.
    fn int_roundtrip(&mut self, idx: usize, v: i64, rng: &mut Rng, src: &str) {
        let dev = self.fresh_dev(idx, rng, None);
        let (o1, dev) = self.case(idx, Op::IntSet(v), dev, src);
        let s = self.w.specs[idx].clone();
        if o1 != Out::Unit {
            return;
        }
        let mut d2 = RecDevice::new(dev.base, dev.img.clone(), vec![]);
        d2.outside = dev.outside.clone();
        let (o2, _) = self.case(idx, Op::IntValue, d2, src);
        if !s.chunk && s.len >= 0 && matches!(s.len, 1 | 2 | 4 | 8) && in_range(v, s.len as usize, s.signed) && o2 != Out::Int(v) {
            self.rep.violation(
                json!({"kind": "int-roundtrip", "len": s.len, "be": s.be, "signed": s.signed}),
                &format!("set_value({v}) then value() = {:?}", o2),
                json!({"spec": {"kind": "IntReg", "len": s.len, "be": s.be, "signed": s.signed, "addr": s.addr.to_string(), "chunk": false},
                       "op": "int.roundtrip", "arg": v.to_string(), "base": dev.base.to_string(), "img": hex(&dev.img), "refuse": "-"}),
            );
        }
    }

    fn float_roundtrip(&mut self, idx: usize, bits: u64, rng: &mut Rng, src: &str) {
        let dev = self.fresh_dev(idx, rng, None);
        let (o1, dev) = self.case(idx, Op::FloatSet(bits), dev, src);
        if o1 != Out::Unit {
            return;
        }
        let s = self.w.specs[idx].clone();
        let d2 = RecDevice::new(dev.base, dev.img.clone(), vec![]);
        let (o2, _) = self.case(idx, Op::FloatValue, d2, src);
        let x = f64::from_bits(bits);
        // in range = representable in the register's format (every f64 for 8 bytes; the
        // f32-representable values for 4 bytes)
        let representable = s.len == 8 || soft_narrow(bits).and_then(soft_widen) == Some(bits);
        if !s.chunk && representable && !x.is_nan() && o2 != Out::Float(bits) {
            self.rep.violation(
                json!({"kind": "float-roundtrip", "len": s.len, "be": s.be}),
                &format!("set_value(f:{bits:016x}) then value() = {:x?}", o2),
                json!({"spec": {"kind": "FloatReg", "len": s.len, "be": s.be, "signed": false, "addr": s.addr.to_string(), "chunk": false},
                       "op": "float.roundtrip", "arg": format!("f:{bits:016x}"), "base": dev.base.to_string(), "img": hex(&dev.img), "refuse": "-"}),
            );
        }
        if x.is_nan() && s.len == 8 && o2 != Out::Float(bits) {
            self.rep.count("float/nan-payload-not-preserved-8");
        }
    }

    fn str_roundtrip(&mut self, idx: usize, v: &str, rng: &mut Rng, src: &str) {
        let dev = self.fresh_dev(idx, rng, None);
        let (o1, dev) = self.case(idx, Op::StrSet(v.to_string()), dev, src);
        if o1 != Out::Unit {
            return;
        }
        let s = self.w.specs[idx].clone();
        let d2 = RecDevice::new(dev.base, dev.img.clone(), vec![]);
        let (o2, _) = self.case(idx, Op::StrValue, d2, src);
        if !s.chunk && s.len >= 0 && o2 != Out::Str(v.to_string()) {
            let why = if v.contains('\0') { "interior-nul" } else { "other" };
            self.rep.violation(
                json!({"kind": "str-roundtrip", "node": "StringReg", "detail": why}),
                &format!("set_value({v:?}) accepted, value() = {:?}", o2),
                json!({"spec": {"kind": "StringReg", "len": s.len, "be": false, "signed": false, "addr": s.addr.to_string(), "chunk": false},
                       "op": "str.roundtrip", "arg": hex(v.as_bytes()), "base": dev.base.to_string(), "img": hex(&dev.img), "refuse": "-"}),
            );
        }
    }
}

fn float_specials() -> Vec<u64> {
    let mut v: Vec<u64> = vec![
        0, 1u64 << 63, 0x7ff0_0000_0000_0000, 0xfff0_0000_0000_0000,
        0x7ff8_0000_0000_0000, 0xfff8_0000_0000_0000, 0x7ff0_0000_0000_0001, 0x7ff4_0000_0000_0000,
        0x7ff8_0000_dead_beef, 0xfff7_ffff_ffff_ffff, 0x7fff_ffff_ffff_ffff, 0x7ff8_0000_2000_0000, 0x7ff0_0000_2000_0000,
        1, 2, 0x000f_ffff_ffff_ffff, 0x0010_0000_0000_0000, 0x8000_0000_0000_0001,
        1.0f64.to_bits(), (-1.0f64).to_bits(), 0.1f64.to_bits(), 1024.0f64.to_bits(), std::f64::consts::PI.to_bits(),
        f64::MAX.to_bits(), f64::MIN.to_bits(), f64::MIN_POSITIVE.to_bits(), f64::EPSILON.to_bits(),
        (f32::MAX as f64).to_bits(), (f32::MIN as f64).to_bits(), (f32::MIN_POSITIVE as f64).to_bits(),
        (f32::EPSILON as f64).to_bits(),
    ];
    // neighbourhoods of the f32 boundaries (overflow to inf, ties, subnormal range, underflow to 0)
    let around = |x: f64, v: &mut Vec<u64>| {
        let b = x.to_bits();
        for d in [-2i64, -1, 0, 1, 2] {
            v.push(b.wrapping_add(d as u64));
            v.push((b.wrapping_add(d as u64)) | (1 << 63));
        }
    };
    around(f32::MAX as f64, &mut v);
    around(3.4028235677973366e38, &mut v); // halfway between f32::MAX and 2^128: ties to inf
    around(f32::MIN_POSITIVE as f64, &mut v);
    around(f64::from_bits(soft_widen(1).unwrap()), &mut v); // smallest f32 subnormal
    around(f64::from_bits(soft_widen(1).unwrap()) / 2.0, &mut v); // tie: rounds to 0 (even)
    around(f64::from_bits(soft_widen(3).unwrap()) / 2.0, &mut v); // tie between subnormals 1 and 2
    around(f64::from_bits(soft_widen(0x007f_ffff).unwrap()), &mut v); // largest f32 subnormal
    around(1.0 + 2f64.powi(-24), &mut v); // tie at 24 bits
    around(1.0 + 3.0 * 2f64.powi(-24), &mut v);
    around(2f64.powi(-126) - 2f64.powi(-150), &mut v); // rounds up into the smallest normal
    v
}


// ---------- second pass: CACHING ON (implementation-only oracles) ----------
// The statement's clause "what reaches the device is exactly the image of the value; each
// access touches exactly [address, address+length)" must also hold with the DEFAULT cache
// store.  One register P (int/float/string/raw; default=WriteThrough / WriteThrough /
// WriteAround / NoCache) plus an overlapping raw register Q at the same address WITHOUT any
// declared invalidator.  Histories: writes, repeated identical writes, device bytes changed
// behind the cache's back (through Q, or by poking the recording device), read-back after
// every write.  Oracle: every successful set_value / IRegister::write appends exactly one W
// entry (address, length, exact image) and the device range equals the image right after it;
// refused writes and reads never write; bytes outside the register never change.

#[derive(Clone, Debug)]
struct CScenario {
    kind: Kind,
    len: usize,
    be: bool,
    signed: bool,
    addr: i64,
    /// "" (default), "WriteThrough", "WriteAround", "NoCache"
    cachable: String,
}

#[derive(Clone, Debug)]
enum CStep {
    /// write through P (IntSet / FloatSet / StrSet / RegWrite)
    Set(Op),
    /// read P back through its typed interface
    Read,
    /// the device changes the register bytes itself
    Poke(Vec<u8>),
    /// another feature (raw register Q, no invalidator declared) writes the same bytes range
    Overlap(Vec<u8>),
    /// write through P while the device answers its next write with a one-shot fault
    /// (refused / applied but reported failed / partially applied)
    FaultSet(Op, WriteFault),
    /// read P while the device answers its next read with a one-shot fault
    FaultRead(ReadFault),
}

impl CScenario {
    fn xml(&self) -> String {
        let cach = if self.cachable.is_empty() { String::new() } else { format!("<Cachable>{}</Cachable>", self.cachable) };
        let mut x = String::from(XML_HEAD);
        x += &format!("<{} Name=\"P\"><Address>{}</Address><Length>{}</Length><AccessMode>RW</AccessMode><pPort>Device</pPort>{cach}", self.kind.tag(), self.addr, self.len);
        if self.kind == Kind::IntReg {
            x += if self.signed { "<Sign>Signed</Sign>" } else { "<Sign>Unsigned</Sign>" };
        }
        if matches!(self.kind, Kind::IntReg | Kind::FloatReg) {
            x += if self.be { "<Endianess>BigEndian</Endianess>" } else { "<Endianess>LittleEndian</Endianess>" };
        }
        x += &format!("</{}>\n", self.kind.tag());
        x += &format!("<Register Name=\"Q\"><Address>{}</Address><Length>{}</Length><AccessMode>RW</AccessMode><pPort>Device</pPort><Cachable>NoCache</Cachable></Register>\n", self.addr, self.len);
        x += XML_TAIL;
        x
    }
    fn unsupported_len(&self) -> bool {
        (self.kind == Kind::IntReg && !matches!(self.len, 1 | 2 | 4 | 8)) || (self.kind == Kind::FloatReg && !matches!(self.len, 4 | 8))
    }
    fn read_op(&self) -> Op {
        match self.kind { Kind::IntReg => Op::IntValue, Kind::FloatReg => Op::FloatValue, Kind::StringReg => Op::StrValue, Kind::Register => Op::RegRead(self.len) }
    }
    /// image a successful write must put on the device (None: any f32 NaN of that sign), or Err = must be refused
    fn expect(&self, op: &Op) -> Result<Option<Vec<u8>>, &'static str> {
        match op {
            Op::IntSet(_) if !matches!(self.len, 1 | 2 | 4 | 8) => Err("InvalidBuffer"),
            Op::IntSet(v) => Ok(Some(image_of(*v, self.len, self.be))),
            Op::FloatSet(_) if !matches!(self.len, 4 | 8) => Err("InvalidBuffer"),
            Op::FloatSet(b) => {
                if self.len == 8 { Ok(Some(image_of(*b as i64, 8, self.be))) }
                else { Ok(soft_narrow(*b).map(|n| image_of(n as i64, 4, self.be))) }
            }
            Op::StrSet(v) => {
                if v.is_ascii() && !v.contains('\0') && v.len() <= self.len {
                    let mut img = v.as_bytes().to_vec();
                    img.resize(self.len, 0);
                    Ok(Some(img))
                } else { Err("InvalidData") }
            }
            Op::RegWrite(d) => if d.len() == self.len { Ok(Some(d.clone())) } else { Err("InvalidBuffer") },
            _ => unreachable!(),
        }
    }
    fn to_json(&self, reg0: &[u8], steps: &[CStep]) -> Value {
        json!({"cached": {
            "kind": self.kind.tag(), "len": self.len, "be": self.be, "signed": self.signed, "addr": self.addr.to_string(), "cachable": self.cachable,
            "reg0": hex(reg0),
            "steps": steps.iter().map(|st| match st {
                CStep::Set(op) => { let (n, a) = op_tokens(op); json!(["set", n, a]) }
                CStep::Read => json!(["read", "", ""]),
                CStep::Poke(b) => json!(["poke", "", hex(b)]),
                CStep::Overlap(b) => json!(["overlap", "", hex(b)]),
                CStep::FaultSet(op, f) => { let (n, a) = op_tokens(op); json!([match f { WriteFault::Refuse => "refused-set".to_string(), WriteFault::LostAck => "lostack-set".to_string(), WriteFault::Partial(k) => format!("partial-set:{k}") }, n, a]) }
                CStep::FaultRead(f) => json!([match f { ReadFault::Refuse => "refused-read", ReadFault::FilledThenFail => "filled-fail-read", ReadFault::GarbageThenFail => "garbage-fail-read" }, "", ""]),
            }).collect::<Vec<_>>(),
        }})
    }
    fn from_json(v: &Value) -> (CScenario, Vec<u8>, Vec<CStep>) {
        let c = &v["cached"];
        let sc = CScenario {
            kind: match c["kind"].as_str().unwrap() { "IntReg" => Kind::IntReg, "FloatReg" => Kind::FloatReg, "StringReg" => Kind::StringReg, _ => Kind::Register },
            len: c["len"].as_u64().unwrap() as usize, be: c["be"].as_bool().unwrap(), signed: c["signed"].as_bool().unwrap(),
            addr: c["addr"].as_str().unwrap().parse().unwrap(), cachable: c["cachable"].as_str().unwrap().to_string(),
        };
        let steps = c["steps"].as_array().unwrap().iter().map(|st| {
            let a = st[2].as_str().unwrap();
            match st[0].as_str().unwrap() {
                "read" => CStep::Read,
                "poke" => CStep::Poke(unhex(a)),
                "overlap" => CStep::Overlap(unhex(a)),
                "refused-read" => CStep::FaultRead(ReadFault::Refuse),
                "filled-fail-read" => CStep::FaultRead(ReadFault::FilledThenFail),
                "garbage-fail-read" => CStep::FaultRead(ReadFault::GarbageThenFail),
                tag => {
                    let op = match st[1].as_str().unwrap() {
                        "int.set" => Op::IntSet(a.parse().unwrap()),
                        "float.set" => Op::FloatSet(u64::from_str_radix(a.trim_start_matches("f:"), 16).unwrap()),
                        "str.set" => Op::StrSet(String::from_utf8(unhex(a)).unwrap()),
                        _ => Op::RegWrite(unhex(a)),
                    };
                    if tag == "refused-set" { CStep::FaultSet(op, WriteFault::Refuse) }
                    else if tag == "lostack-set" { CStep::FaultSet(op, WriteFault::LostAck) }
                    else if let Some(k) = tag.strip_prefix("partial-set:") { CStep::FaultSet(op, WriteFault::Partial(k.parse().unwrap())) }
                    else { CStep::Set(op) }
                }
            }
        }).collect();
        (sc, unhex(c["reg0"].as_str().unwrap()), steps)
    }
}

const CPAD: usize = 3;

/// Run one cached history; false when a violation was reported.
fn run_cached_history(rep: &mut Report, sc: &CScenario, reg0: &[u8], steps: &[CStep], src: &str) -> bool {
    let xml = sc.xml();
    let (_, store, mut cx) = GenApiBuilder::<DefaultNodeStore>::default().build(&xml).expect("generated XML parses");
    let p = store.id_by_name("P").expect("P");
    let q = store.id_by_name("Q").expect("Q");
    let mut img = vec![0x33u8; CPAD];
    img.extend_from_slice(reg0);
    img.extend(vec![0x44u8; CPAD]);
    let mut dev = RecDevice::new(sc.addr - CPAD as i64, img.clone(), vec![]);
    let cname = if sc.cachable.is_empty() { "default" } else { &sc.cachable };
    let sig = |kind: &str| json!({"kind": kind, "cached": true, "node": sc.kind.tag(), "cachable": cname, "len": sc.len, "be": sc.be, "signed": sc.signed});
    // value written last through P and not disturbed since (None: unknown / disturbed)
    let mut clean_last: Option<Op> = None;
    // `coherent`: nothing changed the register bytes behind a possibly filled cache since the cache was last
    // synchronised -> every successful read must decode the bytes the device holds NOW.
    // `known_empty`: no successful access through P yet -> the cache cannot hold a valid entry, a successful
    // read must be exactly one device read (a FAILED read must not populate the cache).
    let mut coherent = true;
    let mut known_empty = true;
    for (i, st) in steps.iter().enumerate() {
        let reg_before = dev.img[CPAD..CPAD + sc.len].to_vec();
        dev.log.clear();
        let mut bad: Option<(&str, String)> = None;
        let mut read_done: Option<bool> = None;
        let canon = format!("cached {} {} {} {} {cname} step{i} {:?} {}", sc.kind.tag(), sc.len, sc.be, sc.signed, st, hex(&reg_before));
        match st {
            CStep::Poke(b) => {
                dev.img[CPAD..CPAD + sc.len].copy_from_slice(b);
                clean_last = None;
                if !known_empty { coherent = false; }
                rep.count("cached/poke-device");
                continue;
            }
            CStep::Overlap(b) => {
                let out = run_op(&store, &mut cx, q, &Op::RegWrite(b.clone()), &mut dev);
                rep.case(&canon, out == Out::Unit);
                rep.count("cached/overlapping-register-write");
                clean_last = None;
                if !known_empty { coherent = false; }
                if out != Out::Unit || dev.log != vec![Access { write: true, addr: sc.addr, len: sc.len, bytes: b.clone() }] || dev.img[CPAD..CPAD + sc.len] != b[..] {
                    bad = Some(("raw-write", format!("step {i}: write through the overlapping NoCache register = {:?}, log {}", out, dev.log_str())));
                }
            }
            CStep::FaultSet(op, fault) => {
                dev.next_write_fault = Some(*fault);
                let out = run_op(&store, &mut cx, p, op, &mut dev);
                let fired = dev.next_write_fault.take().is_none();
                rep.case(&canon, false);
                rep.count(&format!("cached/faulty-device/set-{}", match fault { WriteFault::Refuse => "refused", WriteFault::LostAck => "applied-but-reported-failed", WriteFault::Partial(_) => "partially-applied" }));
                clean_last = None;
                let reg_after = dev.img[CPAD..CPAD + sc.len].to_vec();
                match sc.expect(op) {
                    Err(cls) => {
                        // refused before the device: the fault must not even fire
                        if !matches!(&out, Out::Err(c) if *c == cls) {
                            bad = Some(("not-refused", format!("step {i}: {:?} = {:?}, expected Err({cls})", op, out)));
                        } else if fired || dev.writes() != 0 || reg_after != reg_before {
                            bad = Some(("write-on-refusal", format!("step {i}: refused {:?} reached the device: {}", op, dev.log_str())));
                        }
                    }
                    Ok(exp) => {
                        if !matches!(&out, Out::Err("Device")) {
                            bad = Some(("not-refused", format!("step {i}: {:?} on a faulty device = {:?}, expected Err(Device)", op, out)));
                        } else {
                            // what the device holds now: nothing / the image / its first k bytes -- nothing else
                            let k = match fault { WriteFault::Refuse => 0, WriteFault::LostAck => sc.len, WriteFault::Partial(k) => (*k).min(sc.len) };
                            let ok = match &exp {
                                Some(img) => reg_after[..k] == img[..k] && reg_after[k..] == reg_before[k..],
                                None => reg_after[k..] == reg_before[k..],
                            };
                            if !ok {
                                bad = Some(("image", format!("step {i}: faulty write {:?} of {:?}: device {} -> {}", fault, op, hex(&reg_before), hex(&reg_after))));
                            }
                            if k > 0 {
                                // the write may have been applied: the old cached value must not be served any more
                                coherent = true;
                            }
                        }
                    }
                }
            }
            CStep::FaultRead(fault) => {
                dev.next_read_fault = Some(*fault);
                let out = run_op(&store, &mut cx, p, &sc.read_op(), &mut dev);
                let fired = dev.next_read_fault.take().is_none();
                rep.case(&canon, false);
                rep.count(&format!("cached/faulty-device/read-{}", match fault { ReadFault::Refuse => "refused", ReadFault::FilledThenFail => "filled-then-failed", ReadFault::GarbageThenFail => "garbage-then-failed" }));
                if dev.writes() != 0 || dev.img[CPAD..CPAD + sc.len] != reg_before[..] || !dev.log.is_empty() {
                    bad = Some(("read-wrote", format!("step {i}: read on a faulty device touched it: {}", dev.log_str())));
                } else if out == Out::Panic {
                    bad = Some(("panic", format!("step {i}: read on a faulty device panicked")));
                } else if sc.unsupported_len() {
                    if !matches!(out, Out::Err(_)) {
                        bad = Some(("not-refused", format!("step {i}: value() of a {}-byte {} = {:?}", sc.len, sc.kind.tag(), out)));
                    }
                } else if fired && !matches!(out, Out::Err("Device")) {
                    bad = Some(("fault-swallowed", format!("step {i}: the device failed the read but value() = {:?}", out)));
                } else if !matches!(out, Out::Err(_)) {
                    // served from the cache without any device access: legitimate only for a caching
                    // register that can hold an entry, and then it must be right
                    if cname == "NoCache" || known_empty {
                        bad = Some(("ok-without-device-access", format!("step {i}: read = {:?} although no device read succeeded ({})", out, if known_empty { "nothing can be cached yet" } else { "NoCache" })));
                    } else if coherent && !decodes(sc, &reg_before, &out) {
                        bad = Some(("stale-read", format!("step {i}: cached read = {:?}, device holds {}", out, hex(&reg_before))));
                    } else if let Some(last) = &clean_last {
                        if !readback_matches(sc, last, &out) {
                            bad = Some(("readback", format!("step {i}: cached read after {:?} = {:?}", last, out)));
                        }
                    }
                }
                // a failed read leaves `coherent` / `known_empty` as they are: it must not populate the cache
            }
            CStep::Set(op) => {
                let out = run_op(&store, &mut cx, p, op, &mut dev);
                rep.case(&canon, out == Out::Unit);
                rep.count(&format!("cached/{}/set", sc.kind.tag()));
                rep.count(&format!("cached/cachable-{cname}"));
                let reg_after = dev.img[CPAD..CPAD + sc.len].to_vec();
                match sc.expect(op) {
                    Err(cls) => {
                        if !matches!(&out, Out::Err(c) if *c == cls) {
                            bad = Some(("not-refused", format!("step {i}: {:?} = {:?}, expected Err({cls})", op, out)));
                        } else if dev.writes() != 0 || reg_after != reg_before {
                            bad = Some(("write-on-refusal", format!("step {i}: refused {:?} wrote: {}", op, dev.log_str())));
                        }
                    }
                    Ok(exp) => {
                        let w: Vec<&Access> = dev.log.iter().filter(|a| a.write).collect();
                        if out != Out::Unit {
                            bad = Some(("write-failed", format!("step {i}: {:?} = {:?}", op, out)));
                        } else if w.len() != 1 || w[0].addr != sc.addr || w[0].len != sc.len || w[0].bytes != reg_after {
                            bad = Some(("footprint", format!("step {i}: successful {:?} must be exactly one device write of [address, address+length): log {} (register on the device: {} -> {})", op, dev.log_str(), hex(&reg_before), hex(&reg_after))));
                        } else {
                            let img_ok = match &exp {
                                Some(img) => reg_after == *img,
                                None => {
                                    // NaN: any binary32 NaN with the sign of the value
                                    let g = dec_unsigned(&reg_after, sc.be) as u32;
                                    let sign = match op { Op::FloatSet(b) => (*b >> 63) as u32, _ => 0 };
                                    f32::from_bits(g).is_nan() && (g >> 31) == sign
                                }
                            };
                            if !img_ok {
                                bad = Some(("image", format!("step {i}: after {:?} the device holds {}, expected image {:?}", op, hex(&reg_after), exp.as_ref().map(|b| hex(b)))));
                            }
                        }
                        clean_last = if repeatable_readback(sc, op) { Some(op.clone()) } else { None };
                        if bad.is_none() { coherent = true; known_empty = false; }
                    }
                }
            }
            CStep::Read => {
                let out = run_op(&store, &mut cx, p, &sc.read_op(), &mut dev);
                rep.case(&canon, !matches!(out, Out::Err(_) | Out::Panic));
                rep.count(&format!("cached/{}/read", sc.kind.tag()));
                if !matches!(out, Out::Err(_) | Out::Panic) && !sc.unsupported_len() {
                    read_done = Some(dev.log.iter().any(|a| !a.write));
                }
                if dev.writes() != 0 || dev.img[CPAD..CPAD + sc.len] != reg_before[..] {
                    bad = Some(("read-wrote", format!("step {i}: read wrote to the device: {}", dev.log_str())));
                } else if sc.unsupported_len() {
                    // unsupported integer / float length: refused, whatever the cache holds
                    if !matches!(out, Out::Err("InvalidBuffer")) {
                        bad = Some(("not-refused", format!("step {i}: value() of a {}-byte {} = {:?}", sc.len, sc.kind.tag(), out)));
                    }
                } else if matches!(out, Out::Err(_) | Out::Panic) {
                    bad = Some(("read-failed", format!("step {i}: read = {:?}", out)));
                } else if dev.log.iter().any(|a| a.addr != sc.addr || a.len != sc.len) || dev.log.len() > 1 {
                    bad = Some(("footprint", format!("step {i}: read accesses {}", dev.log_str())));
                } else if known_empty && cname != "NoCache" && dev.log != vec![Access { write: false, addr: sc.addr, len: sc.len, bytes: reg_before.clone() }] {
                    // nothing valid can be cached yet (no successful access so far; failed reads must not
                    // populate the cache): the read must ask the device
                    bad = Some(("stale-read", format!("step {i}: read = {:?} must be exactly one device read, nothing valid can be cached yet: log {}", out, dev.log_str())));
                } else if coherent && cname != "NoCache" && !decodes(sc, &reg_before, &out) {
                    bad = Some(("stale-read", format!("step {i}: read = {:?} but the device holds {} and nothing changed it behind the cache", out, hex(&reg_before))));
                } else if cname == "NoCache" {
                    // a NoCache register always reads the device: one read, value = decoding of the
                    // bytes the device holds NOW (also right after Poke / Overlap)
                    if dev.log != vec![Access { write: false, addr: sc.addr, len: sc.len, bytes: reg_before.clone() }] {
                        bad = Some(("footprint", format!("step {i}: NoCache read must be one device read: {}", dev.log_str())));
                    } else if !decodes(sc, &reg_before, &out) {
                        bad = Some(("decode", format!("step {i}: NoCache read = {:?}, device holds {}", out, hex(&reg_before))));
                    }
                } else if let Some(last) = &clean_last {
                    // read-back right after an undisturbed write returns the written value
                    if !readback_matches(sc, last, &out) {
                        bad = Some(("readback", format!("step {i}: read-back after {:?} = {:?}", last, out)));
                    }
                }
            }
        }
        if bad.is_none() {
            if let Some(hit_device) = read_done {
                known_empty = false;
                if hit_device { coherent = true; }
            }
        }
        if bad.is_none() && (dev.img[..CPAD] != img[..CPAD] || dev.img[CPAD + sc.len..] != img[CPAD + sc.len..] || !dev.outside.is_empty()) {
            bad = Some(("frame", format!("step {i}: bytes outside [address, address+length) changed")));
        }
        if let Some((kind, what)) = bad {
            rep.count(&format!("viol/cached/{kind}"));
            rep.violation(sig(kind), &what, sc.to_json(reg0, &steps[..=i]));
            let _ = src;
            return false;
        }
    }
    true
}

fn repeatable_readback(_sc: &CScenario, _op: &Op) -> bool {
    true
}

/// does `out` equal the value written by `last` (as read back from its image)?
fn readback_matches(sc: &CScenario, last: &Op, out: &Out) -> bool {
    match (last, out) {
        (Op::IntSet(v), Out::Int(x)) => *x == expected_int(&image_of(*v, sc.len, sc.be), sc.be, sc.signed),
        (Op::FloatSet(b), Out::Float(x)) => {
            let xb = f64::from_bits(*b);
            if xb.is_nan() { f64::from_bits(*x).is_nan() }
            else if sc.len == 8 { x == b }
            else { soft_narrow(*b).and_then(soft_widen) == Some(*x) }
        }
        (Op::StrSet(v), Out::Str(x)) => x == v,
        (Op::RegWrite(d), Out::Bytes(x)) => x == d,
        _ => false,
    }
}

/// is `out` the decoding of the register bytes `reg`?
fn decodes(sc: &CScenario, reg: &[u8], out: &Out) -> bool {
    match (sc.kind, out) {
        (Kind::IntReg, Out::Int(x)) => *x == expected_int(reg, sc.be, sc.signed),
        (Kind::FloatReg, Out::Float(x)) => {
            let u = dec_unsigned(reg, sc.be);
            if sc.len == 8 { *x == u as u64 } else { match soft_widen(u as u32) { Some(e) => e == *x, None => f64::from_bits(*x).is_nan() } }
        }
        (Kind::StringReg, Out::Str(x)) => {
            let end = reg.iter().position(|b| *b == 0).unwrap_or(reg.len());
            if reg[..end].is_ascii() { x.as_bytes() == &reg[..end] } else { *x == String::from_utf8_lossy(&reg[..end]) }
        }
        (Kind::Register, Out::Bytes(x)) => x == reg,
        _ => false,
    }
}

fn cached_pass(rep: &mut Report, rng: &mut Rng, thorough: bool) {
    let addrs: [i64; 4] = [0x300, 5, 0x7fff_ffff_ffff_f000, -48];
    let n = if thorough { 4000 } else { 800 };
    for gi in 0..n {
        let kind = [Kind::IntReg, Kind::FloatReg, Kind::StringReg, Kind::Register][gi % 4];
        let len = match kind {
            Kind::IntReg => *rng.pick(&[1usize, 2, 4, 8, 1, 2, 4, 8, 3, 16]),
            Kind::FloatReg => *rng.pick(&[4usize, 8, 4, 8, 4, 8, 2]),
            _ => 1 + rng.below(16) as usize,
        };
        let sc = CScenario { kind, len, be: rng.bool(), signed: rng.bool(), addr: addrs[(gi / 4) % addrs.len()],
            cachable: ["", "WriteThrough", "", "WriteAround", "NoCache"][(gi / 4) % 5].to_string() };
        let gen_set = |rng: &mut Rng| -> Op {
            match kind {
                Kind::IntReg => Op::IntSet(if rng.bool() { rng.interesting_i64() } else { rng.below(300) as i64 - 20 }),
                Kind::FloatReg => Op::FloatSet(match rng.below(5) { 4 => 0x7ff8_0000_0000_0000 | (rng.below(2) << 63) | (rng.next_u64() >> 13), 0 => rng.next_u64(), 1 => (f32::from_bits(rng.next_u64() as u32) as f64).to_bits(), 2 => 1.5f64.to_bits(), _ => ((rng.below(2000) as f64) / 8.0).to_bits() }),
                Kind::StringReg => {
                    let l = match rng.below(8) { 0 => len + 1, _ => rng.below(len as u64 + 1) as usize };
                    let mut st: String = (0..l).map(|_| (0x20 + rng.below(0x5f)) as u8 as char).collect();
                    if rng.chance(1, 12) { st.push('é'); }
                    Op::StrSet(st)
                }
                Kind::Register => { let l = if rng.chance(1, 10) { len + 1 } else { len }; Op::RegWrite(rng.bytes(l)) }
            }
        };
        let reg0 = rng.bytes(len);
        let mut steps: Vec<CStep> = vec![];
        let mut last_set: Option<Op> = None;
        if gi % 3 == 0 {
            // the very first access fails (nothing cached yet), the second one is healthy
            steps.push(CStep::FaultRead([ReadFault::Refuse, ReadFault::FilledThenFail, ReadFault::GarbageThenFail][(gi / 3) % 3]));
            steps.push(CStep::Read);
        }
        for _ in 0..(if thorough { 24 } else { 14 }) {
            match rng.below(12) {
                10 => {
                    let op = last_set.clone().filter(|_| rng.bool()).unwrap_or_else(|| gen_set(rng));
                    let f = match rng.below(3) { 0 => WriteFault::Refuse, 1 => WriteFault::LostAck, _ => WriteFault::Partial(rng.below(len as u64 + 1) as usize) };
                    steps.push(CStep::FaultSet(op, f));
                    steps.push(CStep::Read);
                }
                11 => {
                    // the device fails one read, then is healthy again: the re-read must ask the device
                    steps.push(CStep::FaultRead(*rng.pick(&[ReadFault::Refuse, ReadFault::FilledThenFail, ReadFault::GarbageThenFail])));
                    steps.push(CStep::Read);
                }
                0 | 1 | 2 => {
                    let op = gen_set(rng);
                    last_set = Some(op.clone());
                    steps.push(CStep::Set(op));
                    steps.push(CStep::Read);
                }
                3 | 4 | 5 => {
                    // the same value again (possibly after the device changed)
                    let op = last_set.clone().unwrap_or_else(|| gen_set(rng));
                    last_set = Some(op.clone());
                    steps.push(CStep::Set(op));
                    steps.push(CStep::Read);
                }
                6 => steps.push(CStep::Poke(rng.bytes(len))),
                7 => steps.push(CStep::Overlap(rng.bytes(len))),
                8 => steps.push(CStep::Read),
                _ => {
                    // write, disturb, write the same value again: the typical lost update
                    let op = last_set.clone().unwrap_or_else(|| gen_set(rng));
                    last_set = Some(op.clone());
                    steps.push(CStep::Set(op.clone()));
                    steps.push(if rng.bool() { CStep::Poke(rng.bytes(len)) } else { CStep::Overlap(rng.bytes(len)) });
                    steps.push(CStep::Set(op));
                    steps.push(CStep::Read);
                }
            }
        }
        run_cached_history(rep, &sc, &reg0, &steps, "cached");
    }
}

fn main() {
    let args = parse_args();
    let mut rng = Rng::new(args.seed);
    let rep = Report::new(
        "C01",
        "real nodes parsed from generated XML (kind x length incl. unsupported x byte order x sign x address), caching off, recording device; exhaustive values for 8-bit on every node and for 16-bit on one address per (byte order, sign) configuration in BOTH tiers (strided on the other addresses), boundary+random for 32/64-bit and floats, random device images, strings incl. unrepresentable ones, raw reads/writes with right and wrong buffer lengths, device refusals; second pass with CACHING ON (default cache store; default/WriteThrough/WriteAround/NoCache; int, float, string, raw registers; an overlapping raw register without declared invalidator): histories of writes, repeated identical writes, device bytes changed behind the cache (overlapping register, device poke), read-back after every write, one-shot device faults (read: refused / filled then failed / garbage then failed, followed by a healthy re-read; write: refused / applied but reported failed / partially applied), under implementation-only oracles (a failed read never populates the cache; while nothing changed the bytes behind the cache every read decodes the device bytes; (every successful write is exactly one device write of the exact image, device range = image right after, refused writes and reads never write, frame); a case is non-trivial when the access succeeds; distinct by full request line",
    );

    // ----- node table -----
    let addrs: [i64; 6] = [0, 4, 0x10000, 0x7fff_fff0, 0x7fff_ffff_ffff_f000, -64];
    let mut specs: Vec<Spec> = vec![];
    let mut k = 0usize;
    let add = |kind: Kind, len: i64, be: bool, signed: bool, addr: i64, chunk: bool, specs: &mut Vec<Spec>| {
        specs.push(Spec { name: format!("N{}", specs.len()), kind, len, be, signed, addr, chunk, swap: false });
        specs.len() - 1
    };
    let mut int_nodes = vec![];
    for len in [1i64, 2, 4, 8, 0, 3, 5, 6, 7, 16, -1] {
        for be in [false, true] {
            for signed in [false, true] {
                let n_addr = if matches!(len, 1 | 2 | 4 | 8) { 3 } else { 1 };
                for _ in 0..n_addr {
                    k += 1;
                    int_nodes.push(add(Kind::IntReg, len, be, signed, addrs[k % addrs.len()], false, &mut specs));
                }
            }
        }
    }
    let mut float_nodes = vec![];
    for len in [4i64, 8, 0, 1, 2, 3, 5, 16, -1] {
        for be in [false, true] {
            let n_addr = if matches!(len, 4 | 8) { 3 } else { 1 };
            for _ in 0..n_addr {
                k += 1;
                float_nodes.push(add(Kind::FloatReg, len, be, false, addrs[k % addrs.len()], false, &mut specs));
            }
        }
    }
    let mut str_nodes = vec![];
    for len in [0i64, 1, 2, 3, 5, 8, 16, 31, 64, -1] {
        for _ in 0..2 {
            k += 1;
            str_nodes.push(add(Kind::StringReg, len, false, false, addrs[k % addrs.len()], false, &mut specs));
        }
    }
    let mut raw_nodes = vec![];
    for len in [0i64, 1, 2, 3, 4, 5, 8, 16, 64, -2] {
        for kind in [Kind::Register, Kind::IntReg, Kind::FloatReg, Kind::StringReg] {
            k += 1;
            raw_nodes.push(add(kind, len, k % 2 == 0, k % 3 == 0, addrs[k % addrs.len()], false, &mut specs));
        }
    }
    // nodes on a port that declares <SwapEndianess>Yes</SwapEndianess>: the flag is parsed and has NO
    // effect anywhere in this code base (see props/C01.json assumptions); the differential pins that
    let mut swap_nodes = vec![];
    for (kind, len) in [(Kind::IntReg, 2i64), (Kind::IntReg, 4), (Kind::IntReg, 8), (Kind::IntReg, 1), (Kind::FloatReg, 4), (Kind::FloatReg, 8), (Kind::StringReg, 6), (Kind::Register, 4)] {
        for be in [false, true] {
            for signed in [false, true] {
                if kind != Kind::IntReg && signed { continue; }
                if matches!(kind, Kind::StringReg | Kind::Register) && be { continue; }
                k += 1;
                let i = add(kind, len, be, signed, addrs[k % addrs.len()], false, &mut specs);
                specs[i].swap = true;
                swap_nodes.push(i);
            }
        }
    }
    let chunk_nodes = vec![
        add(Kind::IntReg, 4, false, false, 0x100, true, &mut specs),
        add(Kind::FloatReg, 8, true, false, 0x100, true, &mut specs),
        add(Kind::StringReg, 8, false, false, 0x100, true, &mut specs),
        add(Kind::Register, 4, false, false, 0x100, true, &mut specs),
    ];
    let w = build(specs);
    let mut r = Runner { w, rep, camdrv: args.camdrv.clone() };

    // ----- replay / corpus -----
    fn run_replay(r: &mut Runner, rp: &Value, rng: &mut Rng, src: &str) {
        if rp.get("cached").is_some() {
            let (sc, reg0, steps) = CScenario::from_json(rp);
            run_cached_history(&mut r.rep, &sc, &reg0, &steps, src);
            return;
        }
        let sp = &rp["spec"];
        let kind = sp["kind"].as_str().unwrap();
        // same configuration: rebuild exactly this node
        let spec = Spec {
            name: "Replay".into(),
            kind: match kind { "IntReg" => Kind::IntReg, "FloatReg" => Kind::FloatReg, "StringReg" => Kind::StringReg, _ => Kind::Register },
            len: sp["len"].as_i64().unwrap(), be: sp["be"].as_bool().unwrap(), signed: sp["signed"].as_bool().unwrap(),
            addr: sp["addr"].as_str().unwrap().parse().unwrap(), chunk: sp["chunk"].as_bool().unwrap(),
            swap: sp["swap"].as_bool().unwrap_or(false),
        };
        let saved = std::mem::replace(&mut r.w, build(vec![spec]));
        let base: i64 = rp["base"].as_str().unwrap().parse().unwrap();
        let img = unhex(rp["img"].as_str().unwrap());
        let refuse: Vec<u64> = match rp["refuse"].as_str().unwrap() { "-" => vec![], s => s.split(',').map(|x| x.parse().unwrap()).collect() };
        let arg = rp["arg"].as_str().unwrap();
        let fbits = |a: &str| u64::from_str_radix(a.trim_start_matches("f:"), 16).unwrap();
        let dev = RecDevice::new(base, img, refuse);
        match rp["op"].as_str().unwrap() {
            "int.value" => { r.case(0, Op::IntValue, dev, src); }
            "int.min" => { r.case(0, Op::IntMin, dev, src); }
            "int.max" => { r.case(0, Op::IntMax, dev, src); }
            "int.set" => { r.case(0, Op::IntSet(arg.parse().unwrap()), dev, src); }
            "int.roundtrip" => r.int_roundtrip(0, arg.parse().unwrap(), rng, src),
            "float.value" => { r.case(0, Op::FloatValue, dev, src); }
            "float.set" => { r.case(0, Op::FloatSet(fbits(arg)), dev, src); }
            "float.roundtrip" => r.float_roundtrip(0, fbits(arg), rng, src),
            "str.value" => { r.case(0, Op::StrValue, dev, src); }
            "str.set" => { r.case(0, Op::StrSet(String::from_utf8(unhex(arg)).unwrap()), dev, src); }
            "str.roundtrip" => r.str_roundtrip(0, &String::from_utf8(unhex(arg)).unwrap(), rng, src),
            "reg.read" => { r.case(0, Op::RegRead(arg.parse().unwrap()), dev, src); }
            "reg.write" => { r.case(0, Op::RegWrite(unhex(arg)), dev, src); }
            other => panic!("unknown replay op {other}"),
        }
        r.w = saved;
    }
    if let Some(path) = &args.replay {
        let v: Value = serde_json::from_str(&std::fs::read_to_string(path).unwrap()).unwrap();
        run_replay(&mut r, &v["replay"], &mut rng, "replay");
        r.rep.write(&args);
        return;
    }
    // minimised past failures first
    let mut corpus: Vec<_> = std::fs::read_dir("/verif/corpus/C01").map(|d| d.filter_map(|e| e.ok()).map(|e| e.path()).collect()).unwrap_or_default();
    corpus.sort();
    for pth in corpus {
        if pth.extension().map_or(false, |e| e == "json") {
            let v: Value = serde_json::from_str(&std::fs::read_to_string(&pth).unwrap()).unwrap();
            run_replay(&mut r, &v["replay"], &mut rng, "corpus");
        }
    }

    let thorough = args.thorough();

    // ----- integers -----
    let bounds64: Vec<i64> = {
        let mut v = vec![0i64, 1, -1, 2, -2, 127, 128, 129, -127, -128, -129, 255, 256, 257, 32767, 32768, -32768, -32769, 65535, 65536,
            i32::MAX as i64, i32::MAX as i64 + 1, i32::MIN as i64, i32::MIN as i64 - 1, u32::MAX as i64, u32::MAX as i64 + 1,
            i64::MAX, i64::MAX - 1, i64::MIN, i64::MIN + 1, 0x0102_0304_0506_0708, -0x0102_0304_0506_0708, 0x80, 0x8000, 0x8000_0000,
            0x00ff_00ff_00ff_00ffu64 as i64, 0xff00_ff00_ff00_ff00u64 as i64];
        for s in 0..64 {
            v.push(1i64 << s);
            v.push((1i64 << s).wrapping_sub(1));
            v.push((1i64 << s).wrapping_neg());
        }
        v
    };
    for &idx in &int_nodes.clone() {
        let s = r.w.specs[idx].clone();
        for op in [Op::IntMin, Op::IntMax] {
            let dev = r.fresh_dev(idx, &mut rng, None);
            r.case(idx, op, dev, "int-minmax");
        }
        match s.len {
            1 => {
                for v in -130i64..=260 {
                    r.int_roundtrip(idx, v, &mut rng, "int8-exhaustive");
                }
                // every device image
                for b in 0..=255u8 {
                    let mut dev = r.fresh_dev(idx, &mut rng, None);
                    let off = (s.addr - dev.base) as usize;
                    dev.img[off] = b;
                    r.case(idx, Op::IntValue, dev, "int8-images");
                }
            }
            2 => {
                let stride = 1;
                // the exhaustive sweep (every 16-bit value, both tiers) runs on one address per configuration, strided on the others
                let first_of_cfg = int_nodes.iter().position(|&j| { let t = &r.w.specs[j]; t.len == 2 && t.be == s.be && t.signed == s.signed }) == int_nodes.iter().position(|&j| j == idx);
                let stride = if first_of_cfg { stride } else if thorough { 37 } else { 251 };
                let mut v = -32770i64;
                while v <= 65540 {
                    r.int_roundtrip(idx, v, &mut rng, "int16-sweep");
                    v += stride;
                }
                for v in [-32769i64, -32768, -1, 0, 1, 32767, 32768, 65535, 65536] {
                    r.int_roundtrip(idx, v, &mut rng, "int16-bounds");
                }
            }
            4 | 8 => {
                for &v in &bounds64 {
                    r.int_roundtrip(idx, v, &mut rng, "int-bounds");
                }
                for _ in 0..(if thorough { 4000 } else { 250 }) {
                    let v = if rng.bool() { rng.next_u64() as i64 } else { rng.interesting_i64() };
                    let v = if s.len == 4 && rng.bool() { v as i32 as i64 } else { v };
                    r.int_roundtrip(idx, v, &mut rng, "int-random");
                }
                for _ in 0..(if thorough { 2000 } else { 150 }) {
                    let dev = r.fresh_dev(idx, &mut rng, None);
                    r.case(idx, Op::IntValue, dev, "int-random-image");
                }
                for fill in [0u8, 0xff, 0x80, 0x7f] {
                    let dev = r.fresh_dev(idx, &mut rng, Some(fill));
                    r.case(idx, Op::IntValue, dev, "int-fill-image");
                }
            }
            _ => {
                for &v in &[0i64, 1, -1, 255, i64::MAX, i64::MIN] {
                    r.int_roundtrip(idx, v, &mut rng, "int-unsupported-len");
                }
                for _ in 0..6 {
                    let dev = r.fresh_dev(idx, &mut rng, None);
                    r.case(idx, Op::IntValue, dev, "int-unsupported-len");
                }
            }
        }
    }

    // ----- floats -----
    let specials = float_specials();
    for &idx in &float_nodes.clone() {
        let s = r.w.specs[idx].clone();
        if matches!(s.len, 4 | 8) {
            for &b in &specials {
                r.float_roundtrip(idx, b, &mut rng, "float-special");
            }
            for _ in 0..(if thorough { 6000 } else { 400 }) {
                let b = match rng.below(4) {
                    0 => rng.next_u64(),
                    1 => (f32::from_bits(rng.next_u64() as u32) as f64).to_bits(), // f32-representable
                    2 => (rng.below(2) << 63) | ((1023 - 160 + rng.below(320)) << 52) | (rng.next_u64() & ((1 << 52) - 1)), // around the f32 exponent range
                    _ => ((rng.next_u64() as i64 as f64) / 1000.0).to_bits(),
                };
                r.float_roundtrip(idx, b, &mut rng, "float-random");
            }
            for _ in 0..(if thorough { 3000 } else { 200 }) {
                let mut dev = r.fresh_dev(idx, &mut rng, None);
                if s.len == 4 && rng.chance(1, 3) {
                    // f32 specials in the image: NaNs, inf, subnormals
                    let pat: u32 = *rng.pick(&[0x7f80_0000u32, 0xff80_0000, 0x7fc0_0000, 0x7f80_0001, 0xffc1_2345, 0x0000_0001, 0x807f_ffff, 0x0080_0000, 0x7f7f_ffff, 0x8000_0000, 0x7fa0_0000]);
                    let off = (s.addr - dev.base) as usize;
                    let bytes = if s.be { pat.to_be_bytes() } else { pat.to_le_bytes() };
                    dev.img[off..off + 4].copy_from_slice(&bytes);
                }
                r.case(idx, Op::FloatValue, dev, "float-random-image");
            }
        } else {
            for &b in &[0u64, 1.5f64.to_bits(), 0x7ff8_0000_0000_0000] {
                r.float_roundtrip(idx, b, &mut rng, "float-unsupported-len");
            }
            for _ in 0..4 {
                let dev = r.fresh_dev(idx, &mut rng, None);
                r.case(idx, Op::FloatValue, dev, "float-unsupported-len");
            }
        }
    }

    // ----- strings -----
    for &idx in &str_nodes.clone() {
        let s = r.w.specs[idx].clone();
        let l = s.len.max(0) as usize;
        // representable strings of every length 0..=l, and too long ones
        for n in 0..=(l + 2) {
            for _ in 0..(if thorough { 12 } else { 3 }) {
                let st: String = (0..n).map(|_| (1 + rng.below(127)) as u8 as char).collect();
                r.str_roundtrip(idx, &st, &mut rng, "str-ascii");
            }
            let st: String = (0..n).map(|i| (b'a' + (i % 26) as u8) as char).collect();
            r.str_roundtrip(idx, &st, &mut rng, "str-ascii");
        }
        if l == 1 || l == 2 {
            for c in 0u32..=300 {
                if let Some(ch) = char::from_u32(c) {
                    r.str_roundtrip(idx, &ch.to_string(), &mut rng, "str-all-1char");
                }
            }
        }
        // unrepresentable: non-ASCII, interior / trailing NUL
        for st in ["é", "aé", "日本", "\u{80}", "a\u{7f}\u{80}", "\0", "a\0", "a\0b", "\0b", "ab\0\0", "ab\0cd\0"] {
            r.str_roundtrip(idx, st, &mut rng, "str-unrepresentable");
        }
        // arbitrary device images (NULs, non-ASCII, invalid UTF-8)
        for i in 0..(if thorough { 400 } else { 40 }) {
            let mut dev = r.fresh_dev(idx, &mut rng, None);
            let off = (s.addr - dev.base) as usize;
            for j in 0..l {
                dev.img[off + j] = match i % 4 {
                    0 => dev.img[off + j],
                    1 => dev.img[off + j] & 0x7f,
                    2 => if rng.chance(1, 5) { 0 } else { 0x20 + rng.below(0x5f) as u8 },
                    _ => if rng.chance(1, 8) { 0xc3 } else { 0x41 + rng.below(26) as u8 },
                };
            }
            r.case(idx, Op::StrValue, dev, "str-random-image");
        }
        for fill in [0u8, b'x', 0xff] {
            let dev = r.fresh_dev(idx, &mut rng, Some(fill));
            r.case(idx, Op::StrValue, dev, "str-fill-image");
        }
        // device images assembled from UTF-8 fragments: well-formed 2/3/4-byte sequences, lone
        // continuations, overlongs, surrogates, code points above U+10FFFF, truncated sequences,
        // bytes that are never a lead; cut at random places (from_utf8_lossy model, Model/RegUtf8.lean)
        const FRAGS: &[&[u8]] = &[
            b"a", b"Z~", &[0xc3, 0xa9], &[0xdf, 0xbf], &[0xc2, 0x80], &[0xe2, 0x82, 0xac], &[0xe0, 0xa0, 0x80],
            &[0xed, 0x9f, 0xbf], &[0xee, 0x80, 0x80], &[0xef, 0xbf, 0xbd], &[0xf0, 0x9f, 0x98, 0x80], &[0xf0, 0x90, 0x80, 0x80],
            &[0xf4, 0x8f, 0xbf, 0xbf], &[0xf1, 0x80, 0x80, 0x80], &[0x80], &[0xbf], &[0xc0, 0x80], &[0xc1, 0xbf], &[0xe0, 0x80, 0x80],
            &[0xe0, 0x9f, 0xbf], &[0xf0, 0x80, 0x80, 0x80], &[0xf0, 0x8f, 0xbf, 0xbf], &[0xed, 0xa0, 0x80], &[0xed, 0xbf, 0xbf],
            &[0xf4, 0x90, 0x80, 0x80], &[0xf5, 0x80, 0x80, 0x80], &[0xf8, 0x88, 0x80, 0x80, 0x80], &[0xff], &[0xfe], &[0xc3], &[0xe2], &[0xe2, 0x82],
            &[0xf0], &[0xf0, 0x9f], &[0xf0, 0x9f, 0x98], &[0xc3, 0x41], &[0xe2, 0x82, 0x41], &[0xe2, 0x41, 0x82], &[0xf0, 0x9f, 0x41, 0x80],
            &[0xf0, 0x9f, 0x98, 0x41], &[0xe1, 0x80], &[0xec, 0xbf, 0xbf], &[0xf3, 0xbf, 0xbf, 0xbf], &[0xf4, 0x80], &[0xc2, 0xc2, 0x80], &[0xe2, 0xe2, 0x82, 0xac],
        ];
        for i in 0..(if thorough { 3000 } else { 300 }) {
            let mut dev = r.fresh_dev(idx, &mut rng, None);
            let off = (s.addr - dev.base) as usize;
            let mut img: Vec<u8> = Vec::new();
            while img.len() < l {
                if i % 3 == 2 && rng.chance(1, 6) {
                    img.push(0x80 + rng.below(0x80) as u8);
                } else {
                    img.extend_from_slice(FRAGS[rng.below(FRAGS.len() as u64) as usize]);
                }
            }
            // mostly NUL-free so that the whole register is decoded; sometimes a NUL cuts a sequence
            if l > 0 && rng.chance(1, 4) {
                let k = rng.below(l as u64) as usize;
                img[k] = 0;
            }
            dev.img[off..off + l].copy_from_slice(&img[..l]);
            r.case(idx, Op::StrValue, dev, "str-utf8-fragments");
        }
    }

    // ----- raw register access -----
    for &idx in raw_nodes.iter().chain(int_nodes.iter().step_by(5)).collect::<Vec<_>>() {
        let s = r.w.specs[idx].clone();
        let l = s.len.max(0) as usize;
        let mut lens = vec![l, l + 1, 0, 1, 2, 4, 8, l.saturating_sub(1), 2 * l, 65];
        lens.dedup();
        for _ in 0..(if thorough { 6 } else { 2 }) {
            for &n in &lens {
                let dev = r.fresh_dev(idx, &mut rng, None);
                r.case(idx, Op::RegRead(n), dev, "raw");
                let dev = r.fresh_dev(idx, &mut rng, None);
                let data = rng.bytes(n);
                r.case(idx, Op::RegWrite(data), dev, "raw");
            }
        }
    }

    // ----- port with SwapEndianess=Yes (same oracle as a plain port: the flag has no effect) -----
    for &idx in &swap_nodes {
        let s = r.w.specs[idx].clone();
        let l = s.len as usize;
        for _ in 0..(if thorough { 60 } else { 12 }) {
            match s.kind {
                Kind::IntReg => { let v = if s.len == 8 { rng.interesting_i64() } else { rng.interesting_i64() >> (64 - 8 * s.len) }; r.int_roundtrip(idx, v, &mut rng, "swap-port"); }
                Kind::FloatReg => { let b = if s.len == 4 { (f32::from_bits(rng.next_u64() as u32) as f64).to_bits() } else { rng.next_u64() }; r.float_roundtrip(idx, b, &mut rng, "swap-port"); }
                Kind::StringReg => { let n = rng.below(l as u64 + 1) as usize; let st: String = (0..n).map(|_| (0x21 + rng.below(0x5e)) as u8 as char).collect(); r.str_roundtrip(idx, &st, &mut rng, "swap-port"); }
                Kind::Register => {
                    let dev = r.fresh_dev(idx, &mut rng, None);
                    let data = rng.bytes(l);
                    let (_, dev) = r.case(idx, Op::RegWrite(data), dev, "swap-port");
                    let d2 = RecDevice::new(dev.base, dev.img.clone(), vec![]);
                    r.case(idx, Op::RegRead(l), d2, "swap-port");
                }
            }
            let dev = r.fresh_dev(idx, &mut rng, None);
            let rd = match s.kind { Kind::IntReg => Op::IntValue, Kind::FloatReg => Op::FloatValue, Kind::StringReg => Op::StrValue, Kind::Register => Op::RegRead(l) };
            r.case(idx, rd, dev, "swap-port");
        }
    }

    // ----- chunk port, refusing device -----
    for &idx in &chunk_nodes {
        let s = r.w.specs[idx].clone();
        let ops: Vec<Op> = match s.kind {
            Kind::IntReg => vec![Op::IntValue, Op::IntSet(5), Op::RegRead(4), Op::RegWrite(vec![1, 2, 3, 4]), Op::RegWrite(vec![1])],
            Kind::FloatReg => vec![Op::FloatValue, Op::FloatSet(1.0f64.to_bits())],
            Kind::StringReg => vec![Op::StrValue, Op::StrSet("abc".into()), Op::StrSet("é".into())],
            Kind::Register => vec![Op::RegRead(4), Op::RegRead(3), Op::RegWrite(vec![9, 9, 9, 9])],
        };
        for op in ops {
            let dev = r.fresh_dev(idx, &mut rng, None);
            r.case(idx, op, dev, "chunk-port");
        }
    }
    for &idx in int_nodes.iter().step_by(3).chain(float_nodes.iter().step_by(2)).chain(str_nodes.iter().step_by(2)).chain(raw_nodes.iter().step_by(3)).collect::<Vec<_>>() {
        let s = r.w.specs[idx].clone();
        let l = s.len.max(0) as usize;
        let ops: Vec<Op> = match s.kind {
            Kind::IntReg => vec![Op::IntValue, Op::IntSet(-2)],
            Kind::FloatReg => vec![Op::FloatValue, Op::FloatSet(2.5f64.to_bits())],
            Kind::StringReg => vec![Op::StrValue, Op::StrSet("a".into())],
            Kind::Register => vec![Op::RegRead(l), Op::RegWrite(vec![7; l])],
        };
        for op in ops {
            for refuse in [vec![0u64], vec![1]] {
                let mut dev = r.fresh_dev(idx, &mut rng, None);
                dev.refuse = refuse;
                r.case(idx, op.clone(), dev, "refusing-device");
            }
        }
    }

    cached_pass(&mut r.rep, &mut rng, thorough);

    r.rep.extra.insert("nodes".into(), json!(r.w.specs.len()));
    r.rep.write(&args);
}
