//! C10 — chunk iterators of `device/src/u3v/protocol/cmd.rs`.
//! Real iterators vs the Lean model (`CamVerif.Model.Cmd`), plus the property
//! oracle (exact partition within the budget) evaluated on the implementation.

use camharness::*;
use cameleon_device::u3v::prelude::*;
use cameleon_device::u3v::protocol::cmd::{ReadMem, WriteMem};
use cameleon_device::u3v::Error;

fn err_name(e: &Error) -> &'static str {
    match e {
        Error::LibUsb(_) => "LibUsb",
        Error::InvalidPacket(_) => "InvalidPacket",
        Error::BufferIo(_) => "BufferIo",
        Error::InvalidDevice => "InvalidDevice",
    }
}

const MAX_CHUNKS: usize = 70_000;

fn le(b: &[u8]) -> u64 {
    b.iter().rev().fold(0u64, |a, x| (a << 8) | *x as u64)
}

fn pattern(len: usize, seed: u64) -> Vec<u8> {
    (0..len)
        .map(|i| ((i as u64 * 7 + seed * 13 + 3) % 256) as u8)
        .collect()
}

/// (address, read_length) of every chunk, recovered through the public API
/// (`read_length()`) and an independent decode of the serialized command.
fn impl_read(a: u64, n: u16, b: usize) -> Result<Result<Vec<(u64, u64)>, &'static str>, ()> {
    catch(|| {
        let it = match ReadMem::new(a, n).chunks(b) {
            Ok(it) => it,
            Err(e) => return Err(err_name(&e)),
        };
        let mut out = vec![];
        // a legitimate request has at most 65535 chunks; the cap keeps a non-terminating iterator observable
        for c in it.take(MAX_CHUNKS + 1) {
            let rl = c.read_length() as u64;
            let mut buf = vec![];
            c.finalize(0).serialize(&mut buf).unwrap();
            assert_eq!(le(&buf[22..24]), rl);
            out.push((le(&buf[12..20]), rl));
        }
        Ok(out)
    })
}

struct WChunk {
    address: u64,
    data: Vec<u8>,
    data_len: u64,
    scd_len: u64,
    cmd_len: u64,
}

fn impl_write(a: u64, d: &[u8], b: usize) -> Result<Result<Vec<WChunk>, &'static str>, ()> {
    catch(|| {
        let w = match WriteMem::new(a, d) {
            Ok(w) => w,
            Err(e) => return Err(err_name(&e)),
        };
        let it = match w.chunks(b) {
            Ok(it) => it,
            Err(e) => return Err(err_name(&e)),
        };
        let mut out = vec![];
        for c in it.take(MAX_CHUNKS + 1) {
            let data_len = c.data_len() as u64;
            let pk = c.finalize(0);
            let cmd_len = pk.cmd_len() as u64;
            let mut buf = vec![];
            pk.serialize(&mut buf).unwrap();
            out.push(WChunk {
                address: le(&buf[12..20]),
                data: buf[20..].to_vec(),
                data_len,
                scd_len: le(&buf[8..10]),
                cmd_len,
            });
        }
        Ok(out)
    })
}

fn digest_read(r: &Result<Result<Vec<(u64, u64)>, &'static str>, ()>) -> String {
    match r {
        Err(()) => "panic".into(),
        Ok(Err(e)) => format!("err {e}"),
        Ok(Ok(cs)) => {
            let mut h = FNV_INIT;
            for (a, l) in cs {
                h = fnv_u64(fnv_u64(h, *a), *l);
            }
            let s = |c: Option<&(u64, u64)>| c.map_or("-".into(), |c| format!("{}:{}", c.0, c.1));
            format!("ok n={} first={} last={} h={:016x}", cs.len(), s(cs.first()), s(cs.last()), h)
        }
    }
}

fn digest_write(r: &Result<Result<Vec<WChunk>, &'static str>, ()>) -> String {
    match r {
        Err(()) => "panic".into(),
        Ok(Err(e)) => format!("err {e}"),
        Ok(Ok(cs)) => {
            let mut h = FNV_INIT;
            for c in cs {
                h = fnv_u64(fnv_u64(fnv_u64(h, c.address), c.data_len), c.scd_len);
                h = fnv_bytes(h, &c.data);
            }
            let s = |c: Option<&WChunk>| c.map_or("-".into(), |c| format!("{}:{}", c.address, c.data.len()));
            format!("ok n={} first={} last={} h={:016x}", cs.len(), s(cs.first()), s(cs.last()), h)
        }
    }
}

/// Property oracle for reads; precondition: a + n <= 2^64.
fn oracle_read(a: u64, n: u16, b: usize, r: &Result<Result<Vec<(u64, u64)>, &'static str>, ()>) -> Option<String> {
    match r {
        Err(()) => Some("panic".into()),
        Ok(Err(_)) => (b > 12).then(|| "error although the budget can carry payload".into()),
        Ok(Ok(cs)) => {
            if b <= 12 {
                return Some("budget too small but no error".into());
            }
            if cs.len() > MAX_CHUNKS {
                return Some("iterator does not terminate (more than 70000 chunks)".into());
            }
            let room = (b - 12) as u64;
            let mut next = a as u128;
            let mut sum = 0u64;
            for (i, (ca, cl)) in cs.iter().enumerate() {
                if *cl == 0 {
                    return Some(format!("empty chunk #{i}"));
                }
                if *ca as u128 != next {
                    return Some(format!("chunk #{i} not contiguous"));
                }
                if 12 + *cl > b as u64 {
                    return Some(format!("chunk #{i} exceeds budget"));
                }
                if i + 1 < cs.len() && *cl != room.min(u16::MAX as u64) {
                    return Some(format!("chunk #{i} (not last) does not use the budget fully"));
                }
                next += *cl as u128;
                sum += *cl;
            }
            (sum != n as u64).then(|| format!("lengths sum to {sum}, expected {n}"))
        }
    }
}

fn oracle_write(a: u64, d: &[u8], b: usize, r: &Result<Result<Vec<WChunk>, &'static str>, ()>) -> Option<String> {
    let constructible = d.len() + 8 <= 65535;
    match r {
        Err(()) => Some("panic".into()),
        Ok(Err(_)) => (constructible && b > 20).then(|| "error although constructible and budget can carry payload".into()),
        Ok(Ok(cs)) => {
            if !constructible {
                return Some("lengths do not fit u16 but no error".into());
            }
            if b <= 20 {
                return Some("budget too small but no error".into());
            }
            if cs.len() > MAX_CHUNKS {
                return Some("iterator does not terminate (more than 70000 chunks)".into());
            }
            let room = (b - 20) as u64;
            let mut next = a as u128;
            let mut cat = vec![];
            for (i, c) in cs.iter().enumerate() {
                if c.data.is_empty() {
                    return Some(format!("empty chunk #{i}"));
                }
                if c.address as u128 != next {
                    return Some(format!("chunk #{i} not contiguous"));
                }
                if c.cmd_len > b as u64 || c.cmd_len != 20 + c.data.len() as u64 {
                    return Some(format!("chunk #{i} exceeds budget / cmd_len inconsistent"));
                }
                if c.scd_len != 8 + c.data.len() as u64 || c.data_len != c.data.len() as u64 {
                    return Some(format!("chunk #{i} length fields inconsistent"));
                }
                if i + 1 < cs.len() && c.data.len() as u64 != room {
                    return Some(format!("chunk #{i} (not last) does not use the budget fully"));
                }
                next += c.data.len() as u128;
                cat.extend_from_slice(&c.data);
            }
            (cat != d).then(|| "data does not concatenate to the original".into())
        }
    }
}

thread_local! {
    /// (request, implementation digest) of requests in the wrap region: compared with the model for
    /// INFORMATION only (evidence key `wrap_region_informational`), never part of the verdict — the
    /// region is outside the property (callers refuse such ranges), so a change there is no alarm.
    static WRAP: std::cell::RefCell<Vec<(String, String)>> = std::cell::RefCell::new(Vec::new());
}

fn wrap_report(rep: &mut Report, camdrv: &str) {
    let pend: Vec<(String, String)> = WRAP.with(|w| std::mem::take(&mut *w.borrow_mut()));
    if pend.is_empty() {
        return;
    }
    let reqs: Vec<String> = pend.iter().map(|p| p.0.clone()).collect();
    let answers = run_model(camdrv, &reqs);
    let mut agree = 0u64;
    let mut first: Option<Value> = None;
    for (i, (req, imp)) in pend.iter().enumerate() {
        let m = answers.get(i).map(|s| s.as_str()).unwrap_or("<missing>");
        if m == imp {
            agree += 1;
        } else if first.is_none() {
            first = Some(json!({"request": req, "impl": imp, "model": m}));
        }
    }
    rep.extra.insert("wrap_region_informational".into(), json!({
        "note": "requests with address + length > 2^64 (outside the property, not part of the verdict): model (theorems read_checked_panics_iff / read_wrapping_release / write_*) vs implementation",
        "requests": pend.len(), "agree": agree, "first_difference": first}));
}

fn do_read(rep: &mut Report, a: u64, n: u16, b: usize, src: &str) {
    let r = impl_read(a, n, b);
    let canon = format!("read {a} {n} {b}");
    let nontrivial = matches!(&r, Ok(Ok(cs)) if !cs.is_empty());
    rep.case(&canon, nontrivial);
    rep.count(&format!("read/{src}"));
    rep.count(match &r {
        Err(()) => "read:panic",
        Ok(Err(_)) => "read:err",
        Ok(Ok(cs)) if cs.is_empty() => "read:ok-empty",
        Ok(Ok(cs)) if cs.len() == 1 => "read:ok-1chunk",
        _ => "read:ok-multi",
    });
    if (a as u128) + (n as u128) <= 1u128 << 64 {
        if let Some(what) = oracle_read(a, n, b, &r) {
            rep.violation(json!({"kind": "read-partition", "what": what}), &what,
                json!({"op": "read", "address": a.to_string(), "len": n, "budget": b.to_string()}));
        }
    } else {
        // outside the statement (the callers refuse such ranges): observed, never compared
        rep.count("read:address-space-wrap(outside the property: not compared)");
        let d = digest_read(&r);
        WRAP.with(|w| {
            let mut w = w.borrow_mut();
            if w.len() < 4000 {
                w.push((format!("c10 read {} {a} {n} {b}", profile()), d));
            }
        });
        return;
    }
    let d = digest_read(&r);
    if rep.evaluations % 9973 == 1 {
        rep.sample(json!({"request": format!("c10 read {} {a} {n} {b}", profile()), "impl": d}));
    }
    rep.expect(format!("c10 read {} {a} {n} {b}", profile()), d);
}

fn do_write(rep: &mut Report, a: u64, data: &[u8], pat: Option<(usize, u64)>, b: usize, src: &str) {
    let r = impl_write(a, data, b);
    let canon = format!("write {a} {} {b} {:x}", data.len(), fnv_bytes(FNV_INIT, data));
    let nontrivial = matches!(&r, Ok(Ok(cs)) if !cs.is_empty());
    rep.case(&canon, nontrivial);
    rep.count(&format!("write/{src}"));
    rep.count(match &r {
        Err(()) => "write:panic",
        Ok(Err(_)) => "write:err",
        Ok(Ok(cs)) if cs.is_empty() => "write:ok-empty",
        Ok(Ok(cs)) if cs.len() == 1 => "write:ok-1chunk",
        _ => "write:ok-multi",
    });
    if (a as u128) + (data.len() as u128) <= 1u128 << 64 {
        if let Some(what) = oracle_write(a, data, b, &r) {
            rep.violation(json!({"kind": "write-partition", "what": what}), &what,
                json!({"op": "write", "address": a.to_string(), "data": hex(data), "budget": b.to_string()}));
        }
    } else {
        rep.count("write:address-space-wrap(outside the property: not compared)");
        if data.len() <= 600 {
            let d = digest_write(&r);
            WRAP.with(|w| {
                let mut w = w.borrow_mut();
                if w.len() < 4000 {
                    w.push((format!("c10 write {} {a} {} {b}", profile(), hex(data)), d));
                }
            });
        }
        return;
    }
    let d = digest_write(&r);
    let req = match pat {
        Some((n, seed)) => format!("c10 writepat {} {a} {n} {seed} {b}", profile()),
        None => format!("c10 write {} {a} {} {b}", profile(), hex(data)),
    };
    if rep.evaluations % 9973 == 2 {
        rep.sample(json!({"request": req, "impl": d}));
    }
    // The list-based Lean model of the write iterator is quadratic in the chunk count
    // (`data.drop idx` per chunk, as the Rust slices): in the big grid only a deterministic
    // subsample of the many-chunk cases goes to the model; the oracle above covers all of them.
    let chunks_est = if b > 20 { data.len() / (b - 20) } else { 0 };
    if src == "boundary-random-nomodel" {
        return;
    }
    if src == "grid" && chunks_est > 64 && (data.len() + b) % 11 != 0 {
        rep.count("write:grid-many-chunks(oracle only, not sent to model)");
        return;
    }
    rep.expect(req, d);
}

/// `ReadMem::maximum_read_length`: the size by which the production read path splits its buffer.
fn do_maxread(rep: &mut Report, b: usize) {
    let r = catch(|| ReadMem::maximum_read_length(b));
    rep.case(&format!("maxread {b}"), b > 12);
    rep.count("maxread");
    let ans = match r {
        Err(()) => {
            rep.violation(json!({"kind": "maximum-read-length", "what": "panic"}), "maximum_read_length panics",
                json!({"op": "maxread", "budget": b.to_string()}));
            "panic".to_string()
        }
        Ok(m) => {
            let want = b.saturating_sub(12).min(65535) as u16;
            if m != want {
                rep.violation(json!({"kind": "maximum-read-length", "what": "wrong-value"}),
                    &format!("maximum_read_length({b}) = {m}, payload room clamped to u16 is {want}"),
                    json!({"op": "maxread", "budget": b.to_string()}));
            }
            // agreement with the iterator: the first chunk of a maximal request has exactly this length
            if b > 12 {
                if let Ok(Ok(cs)) = impl_read(0, u16::MAX, b) {
                    if cs.first().map(|c| c.1) != Some(m as u64) {
                        rep.violation(json!({"kind": "maximum-read-length", "what": "differs-from-iterator"}),
                            &format!("maximum_read_length({b}) = {m} but the iterator's first chunk of a 65535-byte read is {:?}", cs.first()),
                            json!({"op": "maxread", "budget": b.to_string()}));
                    }
                }
            }
            format!("ok {m}")
        }
    };
    rep.expect(format!("c10 maxread {} {b}", profile()), ans);
}

fn main() {
    let args = parse_args();
    let mut rep = Report::new(
        "C10",
        "exhaustive (length x budget) grid for reads and writes, plus boundary/random lengths up to 65535+, budgets up to 2^32+, addresses near u64::MAX; a case is non-trivial when chunking succeeds with at least one chunk; distinct by (op,address,length,budget,data hash)",
    );
    rep.parallel_model = true;
    let mut rng = Rng::new(args.seed);

    if let Some(path) = &args.replay {
        let v: Value = serde_json::from_str(&std::fs::read_to_string(path).unwrap()).unwrap();
        let r = &v["replay"];
        let a: u64 = r["address"].as_str().unwrap().parse().unwrap();
        let b: usize = r["budget"].as_str().unwrap().parse().unwrap();
        if r["op"] == "maxread" {
            do_maxread(&mut rep, b);
        } else if r["op"] == "read" {
            do_read(&mut rep, a, r["len"].as_u64().unwrap() as u16, b, "replay");
        } else {
            do_write(&mut rep, a, &unhex(r["data"].as_str().unwrap()), None, b, "replay");
        }
        rep.write(&args);
        return;
    }

    // minimised past failures first
    if let Ok(dir) = std::fs::read_dir("/verif/corpus/C10") {
        let mut files: Vec<_> = dir.filter_map(|e| e.ok()).map(|e| e.path()).collect();
        files.sort();
        for f in files {
            if let Ok(v) = serde_json::from_str::<Value>(&std::fs::read_to_string(&f).unwrap_or_default()) {
                let r = &v["replay"];
                let b: usize = r["budget"].as_str().unwrap_or("0").parse().unwrap_or(0);
                match r["op"].as_str() {
                    Some("maxread") => do_maxread(&mut rep, b),
                    Some("read") => do_read(&mut rep, r["address"].as_str().unwrap_or("0").parse().unwrap_or(0), r["len"].as_u64().unwrap_or(0) as u16, b, "corpus"),
                    Some("write") => do_write(&mut rep, r["address"].as_str().unwrap_or("0").parse().unwrap_or(0), &unhex(r["data"].as_str().unwrap_or("-")), None, b, "corpus"),
                    _ => {}
                }
                rep.count("corpus");
            }
        }
    }
    let (max_len, max_budget) = if args.thorough() { (4096usize, 600usize) } else { (520, 100) };
    for n in 0..=max_len {
        for b in 0..=max_budget {
            let a = 0x1_0000u64 + (n as u64) * 3;
            do_read(&mut rep, a, n as u16, b, "grid");
            let seed = (n + b) as u64 % 5;
            do_write(&mut rep, a, &pattern(n, seed), Some((n, seed)), b, "grid");
        }
        if rep.pending_len() > 400_000 {
            rep.flush_model(&args.camdrv);
        }
    }
    rep.extra.insert("grid".into(), json!({"lengths": format!("0..={max_len}"), "budgets": format!("0..={max_budget}"), "exhaustive_over_grid": true}));

    for b in 0..=700usize {
        do_maxread(&mut rep, b);
    }
    for b in [65535usize, 65535 + 11, 65535 + 12, 65535 + 13, 70000, (1 << 32) - 1, 1 << 32, (1 << 32) + 13, usize::MAX - 1, usize::MAX] {
        do_maxread(&mut rep, b);
    }
    for room in [1usize, 2, 3, 12, 100, 244, 1000] {
        for k in [1usize, 2, 3, 7] {
            let n = room * k;
            if n > 65535 {
                continue;
            }
            for slack in [0u64, 1] {
                let a = (u64::MAX - n as u64 + 1).wrapping_sub(slack);
                do_read(&mut rep, a, n as u16, 12 + room, "ends-at-top");
                if n + 8 <= 65535 {
                    do_write(&mut rep, a, &pattern(n, (k % 5) as u64), Some((n, (k % 5) as u64)), 20 + room, "ends-at-top");
                }
            }
        }
    }
    let budgets: Vec<usize> = vec![
        0, 1, 11, 12, 13, 14, 19, 20, 21, 22, 23, 24, 64, 255, 256, 257, 512, 1024, 4095, 4096, 65535 + 11,
        65535 + 12, 65535 + 13, 65535 + 19, 65535 + 20, 65535 + 21, 70000, 1 << 20, (1usize << 32) - 1,
        1usize << 32, (1usize << 32) + 1, usize::MAX,
    ];
    let lens: Vec<usize> = vec![0, 1, 2, 3, 255, 256, 4095, 4096, 4097, 32767, 32768, 65519, 65526, 65527, 65528, 65534, 65535, 65536, 70000];
    let rounds = if args.thorough() { 40_000 } else { 4_000 };
    let mut heavy_seen = 0;
    for i in 0..rounds {
        let n = if rng.chance(1, 2) { *rng.pick(&lens) } else { rng.below(66_000) as usize };
        let b = match rng.below(4) {
            0 => *rng.pick(&budgets),
            1 => rng.below(700) as usize,
            2 => rng.below(70_000) as usize,
            _ => rng.interesting_u64() as usize,
        };
        let a = match rng.below(4) {
            0 => u64::MAX - rng.below(70_000),
            1 => (u64::MAX - n as u64).wrapping_add(rng.below(3)),
            _ => rng.interesting_u64(),
        };
        if n <= 65535 {
            do_read(&mut rep, a, n as u16, b, "boundary-random");
        }
        // the list-based model is quadratic for huge data with tiny budgets: keep only a few such cases
        let heavy = b > 20 && (n as u128 * n as u128) / ((b - 20) as u128) > 40_000_000;
        let mut model_ok = true;
        if heavy {
            heavy_seen += 1;
            if heavy_seen > 3 {
                rep.count("write:heavy(oracle only, not sent to model)");
                model_ok = false;
            }
        }
        if i % 4 == 0 {
            let seed = rng.below(5);
            do_write(&mut rep, a, &pattern(n, seed), Some((n, seed)), b, if model_ok { "boundary-random" } else { "boundary-random-nomodel" });
        } else if n < 3000 {
            let d = rng.bytes(n);
            do_write(&mut rep, a, &d, None, b, if model_ok { "boundary-random-bytes" } else { "boundary-random-nomodel" });
        }
    }
    wrap_report(&mut rep, &args.camdrv);
    rep.write(&args);
}
